// Harness for property C19:
//   "Peeking the label or fragment id agrees with decapsulation"
//
// Public API only.  Copy to tests/harness_C19.rs and run with
//   CARGO_NET_OFFLINE=true cargo test --offline --test harness_C19 -- --nocapture
//   CARGO_NET_OFFLINE=true cargo test --offline --release --test harness_C19 -- --nocapture
//
// Principle: every packet is produced by the real encapsulator (encap / encap_frag / encap_ext).
// For every packet
//   * an independent model (label given by the caller, frag id given by the caller, a model of the
//     label re-use automaton) predicts what `get_label_or_frag_id` must return,
//   * the packet is peeked alone (`buf[..pkt_len]`) and followed by further bytes
//     (zeros / 0xFF / random / a header-looking pattern, or the following packets of a frame),
//     before and after it is decapsulated, on two independent decapsulators,
//   * the packet is decapsulated (alone on one decapsulator, followed on the other one); a recording
//     `GseDecapMemory` tells which frag id decap looked up (`take_frag`) or created (`new_frag`), and
//     the metadata tell which label decap associated with the packet; both are compared with the peek.
#![allow(clippy::all)]
#![allow(dead_code)]

use dvb_gse_rust::crc::DefaultCrc;
use dvb_gse_rust::gse_decap::gse_decap_memory::MemoryContext;
use dvb_gse_rust::gse_decap::{
    DecapContext, DecapError, DecapMemoryError, DecapMetadata, DecapStatus, Decapsulator,
    GetLabelorFragIdError, GseDecapMemory, LabelorFragId, SimpleGseMemory,
};
use dvb_gse_rust::gse_encap::{ContextFrag, EncapError, EncapMetadata, EncapStatus, Encapsulator};
use dvb_gse_rust::header_extension::{
    Extension, MandatoryHeaderExt, MandatoryHeaderExtensionManager,
};
use dvb_gse_rust::label::Label;
use std::collections::BTreeMap;

// ---------------------------------------------------------------------------------------------
// small tools
// ---------------------------------------------------------------------------------------------

struct Rng(u64);
impl Rng {
    fn new(seed: u64) -> Self {
        Rng(seed.wrapping_mul(0x9E37_79B9_7F4A_7C15) | 1)
    }
    fn next(&mut self) -> u64 {
        let mut x = self.0;
        x ^= x >> 12;
        x ^= x << 25;
        x ^= x >> 27;
        self.0 = x;
        x.wrapping_mul(0x2545_F491_4F6C_DD1D)
    }
    fn below(&mut self, n: usize) -> usize {
        (self.next() % n as u64) as usize
    }
    fn range(&mut self, lo: usize, hi: usize) -> usize {
        lo + self.below(hi - lo + 1)
    }
    fn pick<T: Clone>(&mut self, v: &[T]) -> T {
        v[self.below(v.len())].clone()
    }
    fn bytes(&mut self, n: usize) -> Vec<u8> {
        (0..n).map(|_| self.next() as u8).collect()
    }
}

#[derive(Default)]
struct Stats {
    m: BTreeMap<String, u64>,
}
impl Stats {
    fn inc(&mut self, k: &str) {
        *self.m.entry(k.to_string()).or_insert(0) += 1;
    }
    fn get(&self, k: &str) -> u64 {
        *self.m.get(k).unwrap_or(&0)
    }
    fn dump(&self, title: &str) {
        println!("==== {title}");
        for (k, v) in &self.m {
            println!("    {k:<46} {v}");
        }
    }
}

// ---------------------------------------------------------------------------------------------
// recording memory (public trait GseDecapMemory)
// ---------------------------------------------------------------------------------------------

#[derive(Debug, Clone, PartialEq)]
enum Ev {
    NewPdu,
    NewFrag(u8, Label),
    TakeFrag(u8),
    SaveFrag(u8),
}

struct RecMem {
    inner: SimpleGseMemory,
    log: Vec<Ev>,
}
impl GseDecapMemory for RecMem {
    fn new(a: usize, b: usize, c: usize, d: usize) -> Self {
        RecMem {
            inner: SimpleGseMemory::new(a, b, c, d),
            log: vec![],
        }
    }
    fn provision_storage(&mut self, s: Box<[u8]>) -> Result<(), DecapMemoryError> {
        self.inner.provision_storage(s)
    }
    fn new_pdu(&mut self) -> Result<Box<[u8]>, DecapMemoryError> {
        self.log.push(Ev::NewPdu);
        self.inner.new_pdu()
    }
    fn new_frag(&mut self, context: DecapContext) -> Result<MemoryContext, DecapMemoryError> {
        self.log.push(Ev::NewFrag(context.frag_id, context.label));
        self.inner.new_frag(context)
    }
    fn take_frag(&mut self, frag_id: u8) -> Result<MemoryContext, DecapMemoryError> {
        self.log.push(Ev::TakeFrag(frag_id));
        self.inner.take_frag(frag_id)
    }
    fn save_frag(&mut self, context: MemoryContext) -> Result<(), DecapMemoryError> {
        self.log.push(Ev::SaveFrag(context.0.frag_id));
        self.inner.save_frag(context)
    }
}

// receiver-side knowledge of the mandatory extensions; one meaning per id
struct Mgr;
impl MandatoryHeaderExtensionManager for Mgr {
    fn is_mandatory_header_id_known(&self, id: u16) -> MandatoryHeaderExt {
        match id {
            0x00..=0x08 => MandatoryHeaderExt::NonFinal(id as u8),
            0x10..=0x18 => MandatoryHeaderExt::Final((id - 0x10) as u8),
            0x81 | 0x82 => MandatoryHeaderExt::Final(0),
            0xE0..=0xE8 => MandatoryHeaderExt::NonFinal((id - 0xE0) as u8),
            _ => MandatoryHeaderExt::Unknown,
        }
    }
}

type Dec = Decapsulator<RecMem, DefaultCrc, Mgr>;

fn mk_dec(slots: usize, max_pdu_size: usize, storages: usize, storage_len: usize) -> Dec {
    let mut mem = RecMem::new(slots, max_pdu_size, 0, 0);
    for _ in 0..storages {
        mem.provision_storage(vec![0u8; storage_len].into_boxed_slice())
            .unwrap();
    }
    Decapsulator::new(mem, DefaultCrc {}, Mgr)
}

// ---------------------------------------------------------------------------------------------
// model of the sender-side label re-use automaton
// ---------------------------------------------------------------------------------------------

#[derive(Clone, Debug)]
struct TxModel {
    on: bool,
    max: u8,
    cur: u8,
    last: Option<Label>,
}
impl TxModel {
    fn new() -> Self {
        TxModel {
            on: true,
            max: 0,
            cur: 0,
            last: None,
        }
    }
    /// label written on the wire for a packet carrying `l`
    fn emit(&mut self, l: Label) -> Label {
        if !self.on {
            return l;
        }
        if Some(l) == self.last {
            if self.max == 0 {
                return Label::ReUse;
            }
            if self.cur < self.max {
                self.cur += 1;
                return Label::ReUse;
            }
            self.cur = 0;
        }
        if l == Label::Broadcast {
            self.last = None;
        } else if l != Label::ReUse {
            self.last = Some(l);
        }
        l
    }
    fn disable(&mut self) {
        self.on = false;
        self.max = 0;
        self.cur = 0;
    }
    fn enable(&mut self, max: u8) {
        if !self.on {
            self.last = None;
        }
        self.on = true;
        self.max = max;
        self.cur = 0;
    }
}

fn lt_code(l: &Label) -> u16 {
    match l {
        Label::SixBytesLabel(_) => 0,
        Label::ThreeBytesLabel(_) => 1,
        Label::Broadcast => 2,
        Label::ReUse => 3,
    }
}

#[derive(Clone, Copy, Debug)]
enum Exp {
    Start {
        complete: bool,
        emitted: Label,
        /// label the receiver must associate (None: receiver has no label to re-use)
        true_label: Option<Label>,
        frag_id: u8,
    },
    Cont {
        end: bool,
        frag_id: u8,
        true_label: Option<Label>,
    },
}

fn expected_peek(exp: &Exp) -> Result<LabelorFragId, GetLabelorFragIdError> {
    match exp {
        Exp::Start {
            emitted: Label::ReUse,
            ..
        } => Err(GetLabelorFragIdError::ErrLabelReuse),
        Exp::Start { emitted, .. } => Ok(LabelorFragId::Lbl(*emitted)),
        Exp::Cont { frag_id, .. } => Ok(LabelorFragId::FragId(*frag_id)),
    }
}

/// independent look at the two header bytes
fn check_header(pkt: &[u8], exp: &Exp, what: &str) {
    let h = u16::from_be_bytes([pkt[0], pkt[1]]);
    let s = (h >> 15) & 1;
    let e = (h >> 14) & 1;
    let lt = (h >> 12) & 3;
    let gl = (h & 0x0FFF) as usize;
    assert_eq!(gl + 2, pkt.len(), "gse length vs packet length: {what}");
    match exp {
        Exp::Start {
            complete, emitted, ..
        } => {
            assert_eq!(s, 1, "{what}");
            assert_eq!(e, *complete as u16, "{what}");
            assert_eq!(lt, lt_code(emitted), "label type on the wire: {what}");
        }
        Exp::Cont { end, frag_id, .. } => {
            assert_eq!(s, 0, "{what}");
            assert_eq!(e, *end as u16, "{what}");
            assert_eq!(lt, 3, "{what}");
            assert_eq!(pkt[2], *frag_id, "{what}");
        }
    }
}

#[derive(Debug, Clone, PartialEq)]
enum Out {
    Completed(Vec<u8>, DecapMetadata),
    Fragmented(DecapMetadata),
    Err(DecapError),
}

fn simplify(dec: &mut Dec, r: Result<(DecapStatus, usize), (DecapError, usize)>, pkt_len: usize, what: &str) -> Out {
    match r {
        Ok((DecapStatus::CompletedPkt(b, md), n)) => {
            assert_eq!(n, pkt_len, "decap length: {what}");
            let v = b[..md.pdu_len()].to_vec();
            dec.provision_storage(b).expect("storage goes back");
            Out::Completed(v, md)
        }
        Ok((DecapStatus::FragmentedPkt(md), n)) => {
            assert_eq!(n, pkt_len, "decap length: {what}");
            Out::Fragmented(md)
        }
        Ok((DecapStatus::Padding, _)) => panic!("an encapsulator packet was taken for padding: {what}"),
        Err((e, _)) => {
            // a refused storage is handed back inside the error: give it back if we can
            Out::Err(e)
        }
    }
}

/// The heart of the harness: one packet, peeked 8 times, decapsulated twice.
/// `followed` starts with the packet and holds `>= pkt_len` bytes.
fn check_packet(
    da: &mut Dec,
    df: &mut Dec,
    followed: &[u8],
    pkt_len: usize,
    exp: &Exp,
    st: &mut Stats,
    what: &str,
) -> Out {
    let alone = &followed[..pkt_len];
    check_header(alone, exp, what);
    let want = expected_peek(exp);

    // peek before decap
    for (d, name) in [(&*da, "da"), (&*df, "df")] {
        assert_eq!(d.get_label_or_frag_id(alone), want, "peek alone/{name} before decap: {what}");
        assert_eq!(d.get_label_or_frag_id(followed), want, "peek followed/{name} before decap: {what}");
    }
    st.inc("packets peeked");
    if followed.len() > pkt_len {
        st.inc("packets peeked with trailing bytes");
    }
    match &want {
        Ok(LabelorFragId::FragId(_)) => st.inc("peek -> FragId"),
        Ok(LabelorFragId::Lbl(Label::SixBytesLabel(_))) => st.inc("peek -> 6-byte label"),
        Ok(LabelorFragId::Lbl(Label::ThreeBytesLabel(_))) => st.inc("peek -> 3-byte label"),
        Ok(LabelorFragId::Lbl(Label::Broadcast)) => st.inc("peek -> broadcast"),
        Err(GetLabelorFragIdError::ErrLabelReuse) => st.inc("peek -> ErrLabelReuse"),
        _ => unreachable!(),
    }

    // decap
    da.memory.log.clear();
    df.memory.log.clear();
    let ra = da.decap(alone);
    let rf = df.decap(followed);
    let oa = simplify(da, ra, pkt_len, what);
    let of = simplify(df, rf, pkt_len, what);
    assert_eq!(oa, of, "decap alone vs followed: {what}");
    assert_eq!(da.memory.log, df.memory.log, "memory traffic alone vs followed: {what}");

    // what did decap associate with the packet?
    match exp {
        Exp::Start {
            complete,
            true_label,
            frag_id,
            ..
        } => match &oa {
            Out::Completed(_, md) => {
                assert!(*complete, "{what}");
                assert_eq!(Some(md.label()), *true_label, "label of decap: {what}");
                if let Ok(LabelorFragId::Lbl(l)) = &want {
                    assert_eq!(md.label(), *l, "peek label vs decap label: {what}");
                }
                st.inc("decap ok: complete");
            }
            Out::Fragmented(md) => {
                assert!(!*complete, "{what}");
                assert_eq!(Some(md.label()), *true_label, "label of decap: {what}");
                if let Ok(LabelorFragId::Lbl(l)) = &want {
                    assert_eq!(md.label(), *l, "peek label vs decap label: {what}");
                }
                assert!(
                    da.memory.log.contains(&Ev::NewFrag(*frag_id, md.label())),
                    "context created by decap: {what} {:?}",
                    da.memory.log
                );
                st.inc("decap ok: first");
            }
            Out::Err(e) => {
                st.inc(&format!("decap err on start: {:?}", short(e)));
            }
        },
        Exp::Cont {
            frag_id,
            true_label,
            end,
        } => {
            // decap looked this frag id up, whatever the outcome
            assert_eq!(
                da.memory.log.first(),
                Some(&Ev::TakeFrag(*frag_id)),
                "frag id looked up by decap: {what}"
            );
            if let Ok(LabelorFragId::FragId(f)) = &want {
                assert_eq!(da.memory.log.first(), Some(&Ev::TakeFrag(*f)), "{what}");
            }
            match &oa {
                Out::Completed(_, md) => {
                    assert!(*end, "{what}");
                    if true_label.is_some() {
                        assert_eq!(Some(md.label()), *true_label, "{what}");
                    }
                    st.inc("decap ok: end");
                }
                Out::Fragmented(md) => {
                    assert!(!*end, "{what}");
                    if true_label.is_some() {
                        assert_eq!(Some(md.label()), *true_label, "{what}");
                    }
                    assert!(da.memory.log.contains(&Ev::SaveFrag(*frag_id)), "{what}");
                    st.inc("decap ok: intermediate");
                }
                Out::Err(e) => {
                    st.inc(&format!("decap err on cont: {:?}", short(e)));
                }
            }
        }
    }

    // peek after decap: stateless
    for (d, name) in [(&*da, "da"), (&*df, "df")] {
        assert_eq!(d.get_label_or_frag_id(alone), want, "peek alone/{name} after decap: {what}");
        assert_eq!(d.get_label_or_frag_id(followed), want, "peek followed/{name} after decap: {what}");
    }
    oa
}

fn short(e: &DecapError) -> String {
    match e {
        DecapError::ErrorMemory(DecapMemoryError::StorageOverflow(_)) => "Memory(StorageOverflow)".into(),
        DecapError::ErrorMemory(DecapMemoryError::BufferTooSmall(_)) => "Memory(BufferTooSmall)".into(),
        e => format!("{e:?}"),
    }
}

// ---------------------------------------------------------------------------------------------
// a sender/receiver pair
// ---------------------------------------------------------------------------------------------

#[derive(Clone, Copy, PartialEq, Debug)]
enum Mode {
    /// everything must be delivered, byte for byte
    Strict,
    /// decap may fail (receiver short of storage, unknown extension ...): only the label / frag id
    /// association is checked
    Lenient,
}

#[derive(Debug, PartialEq)]
enum Sent {
    Delivered,
    EncapErr(EncapError),
    NotDelivered,
}

struct Spec<'a> {
    pdu: &'a [u8],
    frag_id: u8,
    label: Label,
    ptype: u16,
    exts: &'a [Extension],
}

const AREA: usize = 70_000 + 128;

struct Link {
    enc: Encapsulator<DefaultCrc>,
    tx: TxModel,
    da: Dec,
    df: Dec,
    rx_last: Option<Label>,
    area: Vec<u8>,
    st: Stats,
    n: u64,
}

impl Link {
    fn new(da: Dec, df: Dec) -> Self {
        Link {
            enc: Encapsulator::new(DefaultCrc {}),
            tx: TxModel::new(),
            da,
            df,
            rx_last: None,
            area: vec![0u8; AREA],
            st: Stats::default(),
            n: 0,
        }
    }
    fn std() -> Self {
        Link::new(mk_dec(256, 65535, 258, 65535), mk_dec(256, 65535, 258, 65535))
    }
    /// new base band frame on both sides
    fn resync(&mut self) {
        self.enc.reset_last_label();
        self.tx.last = None;
        self.da.reset_last_label();
        self.df.reset_last_label();
        self.rx_last = None;
    }

    fn fill_tail(&mut self, from: usize, extra: usize, rng: &mut Rng) {
        self.n += 1;
        let kind = self.n % 5;
        for (i, b) in self.area[from..from + extra].iter_mut().enumerate() {
            *b = match kind {
                0 => 0,
                1 => 0xFF,
                2 => rng.next() as u8,
                3 => [0xC0, 0x10, 0x06, 0x00][i % 4], // looks like a header
                _ => [0x00, 0x00, 0x30, 0x05][i % 4], // padding then an intermediate header
            };
        }
    }

    /// Send one PDU through encap/encap_ext then encap_frag, checking every packet.
    fn send(
        &mut self,
        s: &Spec,
        first_buf: usize,
        frag_buf: &mut dyn FnMut(&mut Rng) -> usize,
        extra: usize,
        mode: Mode,
        rng: &mut Rng,
    ) -> Sent {
        let what = format!(
            "pdu_len={} frag_id={} label={:?} ptype={:#06x} exts={} first_buf={} extra={} tx={:?}",
            s.pdu.len(),
            s.frag_id,
            s.label,
            s.ptype,
            s.exts.len(),
            first_buf,
            extra,
            self.tx
        );
        let pdu_len = s.pdu.len();
        let first_buf = first_buf.min(70_000);

        // ---- prediction of the first packet
        let mut t = self.tx.clone();
        let emitted = t.emit(s.label);
        let ll = emitted.len();
        let is_final = !s.exts.is_empty() && s.ptype < 0x100;
        let ext_total: usize =
            s.exts.iter().map(|e| e.len()).sum::<usize>() - if is_final { 2 } else { 0 };
        #[derive(Debug, PartialEq)]
        enum P {
            Complete(usize),
            First(usize, usize),
            Err(EncapError),
        }
        let pred = if first_buf >= 4 + ll + ext_total + pdu_len && pdu_len + ll + 2 + ext_total <= 4095 {
            P::Complete(4 + ll + ext_total + pdu_len)
        } else if first_buf < 7 + ll + ext_total || 7 + ll + ext_total > 4097 {
            P::Err(EncapError::ErrorSizeBuffer)
        } else if pdu_len + 2 + ll > 65535 {
            P::Err(EncapError::ErrorPduLength)
        } else {
            let n = (first_buf - (7 + ll + ext_total)).min(4097 - (7 + ll + ext_total));
            P::First(7 + ll + ext_total + n, n)
        };

        let md = EncapMetadata::new(s.ptype, s.label);
        let r = {
            let buf = &mut self.area[..first_buf];
            if s.exts.is_empty() {
                self.enc.encap(s.pdu, s.frag_id, md, buf)
            } else {
                self.enc.encap_ext(s.pdu, s.frag_id, md, buf, s.exts.to_vec())
            }
        };
        let (pkt_len, mut ctx) = match r {
            Err(e) => {
                match &pred {
                    P::Err(pe) => assert_eq!(*pe, e, "encap error prediction: {what}"),
                    _ => panic!("encap error {e:?} but prediction {pred:?}: {what}"),
                }
                self.st.inc("encap refused (buffer or length)");
                return Sent::EncapErr(e);
            }
            Ok(EncapStatus::CompletedPkt(n)) => {
                assert_eq!(pred, P::Complete(n as usize), "{what}");
                (n as usize, None)
            }
            Ok(EncapStatus::FragmentedPkt(n, c)) => {
                match pred {
                    P::First(pl, np) => {
                        assert_eq!(pl, n as usize, "{what}");
                        assert_eq!(np, c.len_pdu_frag() as usize, "{what}");
                        assert_eq!(c.frag_id(), s.frag_id, "{what}");
                    }
                    _ => panic!("prediction {pred:?} vs fragmented {n}: {what}"),
                }
                (n as usize, Some(c))
            }
        };
        self.tx = t;

        let true_label = if emitted == Label::ReUse { self.rx_last } else { Some(emitted) };
        let exp = Exp::Start {
            complete: ctx.is_none(),
            emitted,
            true_label,
            frag_id: s.frag_id,
        };
        self.fill_tail(pkt_len, extra, rng);
        let area = std::mem::take(&mut self.area);
        let out = check_packet(&mut self.da, &mut self.df, &area[..pkt_len + extra], pkt_len, &exp, &mut self.st, &what);
        self.area = area;

        let exp_exts: Vec<Extension> = if s.exts.is_empty() && s.ptype < 0x100 {
            vec![Extension::new(s.ptype, &[]).unwrap()]
        } else {
            s.exts.to_vec()
        };
        let mut alive = true; // does the receiver still follow this PDU?
        match &out {
            Out::Err(e) => {
                if mode == Mode::Strict && true_label.is_some() {
                    panic!("decap refused a start packet: {e:?}: {what}");
                }
                if true_label.is_none() {
                    assert_eq!(*e, DecapError::ErrorNoLabelSaved, "{what}");
                    self.st.inc("explicit ReUse with nothing to re-use");
                }
                self.rx_last = None;
                alive = false;
            }
            Out::Completed(v, m) => {
                if mode == Mode::Strict {
                    assert_eq!(&v[..], s.pdu, "payload: {what}");
                    assert_eq!(m.protocol_type(), s.ptype, "{what}");
                    assert_eq!(m.extensions(), &exp_exts, "{what}");
                }
                self.upd_rx(emitted);
            }
            Out::Fragmented(m) => {
                if mode == Mode::Strict {
                    assert_eq!(m.protocol_type(), s.ptype, "{what}");
                    assert_eq!(m.extensions(), &exp_exts, "{what}");
                }
                self.upd_rx(emitted);
            }
        }
        if ctx.is_none() {
            return if matches!(out, Out::Completed(..)) { Sent::Delivered } else { Sent::NotDelivered };
        }

        // ---- following fragments
        let mut delivered = false;
        let mut retry = false;
        let mut guard = 0usize;
        while let Some(c) = ctx {
            guard += 1;
            assert!(guard < 200_000, "no progress: {what}");
            let b = if retry { 7 + rng.below(24) } else { frag_buf(rng).min(70_000) };
            retry = false;
            let remaining = pdu_len - c.len_pdu_frag() as usize;
            let r = self.enc.encap_frag(s.pdu, &c, &mut self.area[..b]);
            let (pkt_len, end, next) = match r {
                Err(EncapError::ErrorSizeBuffer) => {
                    assert!(b < 4 || (remaining == 0 && b < 7), "encap_frag refused b={b} remaining={remaining}: {what}");
                    self.st.inc("encap_frag refused (buffer)");
                    retry = true;
                    continue;
                }
                Err(e) => panic!("encap_frag {e:?}: {what}"),
                Ok(EncapStatus::CompletedPkt(n)) => {
                    assert_eq!(n as usize, 2 + 1 + remaining + 4, "{what}");
                    (n as usize, true, None)
                }
                Ok(EncapStatus::FragmentedPkt(n, nc)) => {
                    assert!(n as usize >= 4 && n as usize <= b && n as usize <= 4097, "{what}");
                    assert_eq!(nc.len_pdu_frag() as usize, c.len_pdu_frag() as usize + n as usize - 3, "{what}");
                    (n as usize, false, Some(nc))
                }
            };
            let exp = Exp::Cont {
                end,
                frag_id: s.frag_id,
                true_label: if alive { true_label } else { None },
            };
            self.fill_tail(pkt_len, extra, rng);
            let area = std::mem::take(&mut self.area);
            let w = format!("{what} / frag b={b} len={pkt_len} end={end}");
            let out = check_packet(&mut self.da, &mut self.df, &area[..pkt_len + extra], pkt_len, &exp, &mut self.st, &w);
            self.area = area;
            match &out {
                Out::Err(e) => {
                    if mode == Mode::Strict && alive {
                        panic!("decap refused a fragment: {e:?}: {w}");
                    }
                    alive = false;
                }
                Out::Completed(v, m) => {
                    if mode == Mode::Strict || alive {
                        assert!(alive, "{w}");
                    }
                    if mode == Mode::Strict {
                        assert_eq!(&v[..], s.pdu, "payload: {w}");
                        assert_eq!(m.protocol_type(), s.ptype, "{w}");
                        assert_eq!(m.extensions(), &exp_exts, "{w}");
                        assert_eq!(m.pdu_len(), pdu_len, "{w}");
                    }
                    delivered = true;
                }
                Out::Fragmented(_) => {}
            }
            ctx = next;
        }
        if delivered {
            Sent::Delivered
        } else {
            Sent::NotDelivered
        }
    }

    fn upd_rx(&mut self, emitted: Label) {
        match emitted {
            Label::Broadcast => self.rx_last = None,
            Label::ReUse => {}
            l => self.rx_last = Some(l),
        }
    }
}

// ---------------------------------------------------------------------------------------------
// domain ingredients
// ---------------------------------------------------------------------------------------------

fn labels() -> Vec<Label> {
    vec![
        Label::SixBytesLabel([1, 2, 3, 4, 5, 6]),
        Label::SixBytesLabel([0, 0, 0, 0, 0, 1]),
        Label::SixBytesLabel([1, 0, 0, 0, 0, 0]),
        Label::SixBytesLabel([0xFF; 6]),
        Label::ThreeBytesLabel([0, 0, 0]),
        Label::ThreeBytesLabel([0, 0, 1]),
        Label::ThreeBytesLabel([0xFF; 3]),
        Label::ThreeBytesLabel([0xC0, 0x10, 0x00]),
        Label::Broadcast,
    ]
}

fn pdu_sizes() -> Vec<usize> {
    let mut v = vec![0, 1, 2, 3, 4, 5, 6, 7, 8, 9, 10, 11, 100, 1000, 30000];
    v.extend(4078..=4100);
    v.extend(65520..=65535);
    v
}

fn first_bufs() -> Vec<usize> {
    let mut v: Vec<usize> = (4..=20).collect();
    v.extend([64, 1000, 5000, 65535, 65536, 70000]);
    v.extend(4085..=4100);
    v
}

/// fragment buffer schedules
fn frag_sched(kind: usize, pdu_len: usize) -> Box<dyn FnMut(&mut Rng) -> usize> {
    frag_sched_lim(kind, pdu_len, 4200)
}

/// `small_max`: longest PDU that may be cut in tiny (1..9 byte) fragments
fn frag_sched_lim(kind: usize, pdu_len: usize, small_max: usize) -> Box<dyn FnMut(&mut Rng) -> usize> {
    let small_ok = pdu_len <= small_max;
    match kind % 10 {
        0 if small_ok => Box::new(|r: &mut Rng| r.range(3, 12)),
        1 if small_ok => Box::new(|_r: &mut Rng| 4),
        2 if small_ok => Box::new(|_r: &mut Rng| 8),
        0 | 1 | 2 => Box::new(|r: &mut Rng| r.range(300, 900)),
        3 => Box::new(|_r: &mut Rng| 4096),
        4 => Box::new(|_r: &mut Rng| 4097),
        5 => Box::new(|_r: &mut Rng| 4098),
        6 => Box::new(|_r: &mut Rng| 70000),
        7 => Box::new(|r: &mut Rng| r.range(4090, 4100)),
        8 => Box::new(move |r: &mut Rng| if small_ok { r.range(3, 5000) } else { r.range(200, 70000) }),
        _ => Box::new(|r: &mut Rng| *[7usize, 4097, 100, 65535, 4099, 11].get(r.below(6)).unwrap()),
    }
}

fn ext(id: u16, rng: &mut Rng) -> Extension {
    let n = match id {
        0x00..=0x08 => id as usize,
        0x10..=0x18 => (id - 0x10) as usize,
        0x81 | 0x82 => 0,
        0xE0..=0xE8 => (id - 0xE0) as usize,
        0x100..=0x1FF => 0,
        0x200..=0x2FF => 2,
        0x300..=0x3FF => 4,
        0x400..=0x4FF => 6,
        0x500..=0x5FF => 8,
        _ => panic!(),
    };
    Extension::new(id, &rng.bytes(n)).unwrap()
}

/// (chain, protocol type)
fn ext_chains(rng: &mut Rng) -> Vec<(Vec<Extension>, u16)> {
    let mut v = vec![];
    let ptypes = [0x0600u16, 0x0601, 0x0800, 0x86DD, 0xFFFF];
    let mut k = 0;
    // every H-LEN class alone, both ends of each id range
    for id in [0x100u16, 0x1FF, 0x200, 0x2FF, 0x300, 0x3FF, 0x400, 0x4FF, 0x500, 0x5FF] {
        v.push((vec![ext(id, rng)], ptypes[k % 5]));
        k += 1;
    }
    // non final mandatory, 0..8 data bytes (two id families)
    for id in (0x00u16..=0x08).chain(0xE0..=0xE8) {
        v.push((vec![ext(id, rng)], ptypes[k % 5]));
        k += 1;
    }
    // final mandatory, 0..8 data bytes: replaces the protocol type
    for id in (0x10u16..=0x18).chain([0x81, 0x82]) {
        v.push((vec![ext(id, rng)], id));
    }
    // chains
    let opt: Vec<u16> = vec![0x100, 0x1AB, 0x200, 0x2CD, 0x300, 0x3EF, 0x400, 0x401, 0x500, 0x5FF];
    let nonfinal: Vec<u16> = (0x00u16..=0x08).chain(0xE0..=0xE8).collect();
    let fin: Vec<u16> = (0x10u16..=0x18).chain([0x81, 0x82]).collect();
    for n in 2..=8 {
        for variant in 0..6 {
            let mut c = vec![];
            for _ in 0..n - 1 {
                let id = if rng.below(2) == 0 { rng.pick(&opt) } else { rng.pick(&nonfinal) };
                c.push(ext(id, rng));
            }
            if variant % 2 == 0 {
                let id = rng.pick(&fin);
                c.push(ext(id, rng));
                v.push((c, id));
            } else {
                let id = if rng.below(2) == 0 { rng.pick(&opt) } else { rng.pick(&nonfinal) };
                c.push(ext(id, rng));
                v.push((c, ptypes[variant % 5]));
            }
        }
    }
    // a long chain: 40 extensions of 10 bytes
    let mut c = vec![];
    for _ in 0..40 {
        c.push(ext(0x500, rng));
    }
    v.push((c, 0x0800));
    // a chain that nearly fills a GSE packet: 400 x 10 bytes = 4000 bytes
    let mut c = vec![];
    for _ in 0..400 {
        c.push(ext(0x5FF, rng));
    }
    v.push((c, 0xFFFF));
    // ... and one that cannot fit at all with a first fragment header: 409 x 10 = 4090
    let mut c = vec![];
    for _ in 0..409 {
        c.push(ext(0x5FF, rng));
    }
    v.push((c, 0xFFFF));
    v
}

// ---------------------------------------------------------------------------------------------
// T1: encap grid
// ---------------------------------------------------------------------------------------------

#[test]
fn t1_grid_encap() {
    let mut rng = Rng::new(1);
    let pool = rng.bytes(70_000);
    let mut link = Link::std();
    let labels = labels();
    let extras = [0usize, 1, 2, 3, 7, 64];
    let mut frag_id: u8 = 0;
    let mut cell = 0usize;
    let mut pdus = 0u64;
    for reuse in 0..3 {
        match reuse {
            0 => {
                link.enc.enable_re_use_label();
                link.tx.enable(0)
            }
            1 => {
                link.enc.disable_re_use_label();
                link.tx.disable()
            }
            _ => {
                link.enc.enable_re_use_label_with_max_consecutive(1);
                link.tx.enable(1)
            }
        }
        for label in &labels {
            for &p in &pdu_sizes() {
                for &b in &first_bufs() {
                    cell += 1;
                    // thin the grid for the heaviest cells
                    if p > 5000 && cell % 3 != 0 {
                        continue;
                    }
                    link.resync();
                    // the same PDU three times in a row: 2nd (and 3rd) may be re-use packets
                    for rep in 0..3 {
                        frag_id = frag_id.wrapping_add(1);
                        let off = rng.below(70_000 - p + 1);
                        let spec = Spec {
                            pdu: &pool[off..off + p],
                            frag_id,
                            label: *label,
                            ptype: [0x0600u16, 0x0800, 0xFFFF, 0x0081, 0x0010][(cell + rep) % 5],
                            exts: &[],
                        };
                        let mut fs = frag_sched(cell + rep, p);
                        let r = link.send(&spec, b, &mut *fs, extras[(cell + rep) % 6], Mode::Strict, &mut rng);
                        assert_ne!(r, Sent::NotDelivered);
                        pdus += 1;
                    }
                }
            }
        }
    }
    println!("t1: {pdus} PDUs submitted");
    link.st.dump("t1_grid_encap");
    assert!(link.st.get("peek -> ErrLabelReuse") > 1000);
    assert!(link.st.get("peek -> FragId") > 1000);
}

// all 256 frag ids x all label kinds x {first, intermediate, end}
#[test]
fn t1b_all_frag_ids() {
    let mut rng = Rng::new(2);
    let mut link = Link::std();
    let pdu = rng.bytes(300);
    let mut pdus = 0;
    for label in labels() {
        for f in 0..=255u8 {
            for (fb, kb) in [(20usize, 3usize), (150, 4), (7 + 6, 8)] {
                link.resync();
                for _rep in 0..2 {
                    let spec = Spec { pdu: &pdu, frag_id: f, label, ptype: 0x0800, exts: &[] };
                    let mut fs = frag_sched(kb, 300);
                    let r = link.send(&spec, fb, &mut *fs, (f as usize) % 5, Mode::Strict, &mut rng);
                    assert_eq!(r, Sent::Delivered);
                    pdus += 1;
                }
            }
        }
    }
    println!("t1b: {pdus} PDUs");
    link.st.dump("t1b_all_frag_ids");
}

// ---------------------------------------------------------------------------------------------
// T2: encap_ext grid
// ---------------------------------------------------------------------------------------------

#[test]
fn t2_grid_ext() {
    let mut rng = Rng::new(3);
    let pool = rng.bytes(70_000);
    let mut link = Link::std();
    let chains = ext_chains(&mut rng);
    println!("t2: {} extension chains", chains.len());
    let labels = labels();
    let mut psz = vec![0usize, 1, 2, 5, 9, 100, 1000, 20000];
    psz.extend(4060..=4100);
    psz.extend([65524, 65526, 65527, 65529, 65530, 65532, 65533, 65534, 65535]);
    let mut cell = 0usize;
    let mut frag_id = 0u8;
    let mut pdus = 0u64;
    for (chain, ptype) in &chains {
        let ext_total: usize = chain.iter().map(|e| e.len()).sum::<usize>() - if *ptype < 0x100 { 2 } else { 0 };
        for label in &labels {
            for &p in &psz {
                cell += 1;
                if chain.len() >= 40 && cell % 4 != 0 {
                    continue;
                }
                if p > 5000 && cell % 2 != 0 {
                    continue;
                }
                // first buffers around the interesting thresholds of this very cell
                let ll = label.len();
                let c = 4 + ll + ext_total + p; // complete packet size
                let f = 7 + ll + ext_total; // first fragment header size
                let mut bufs = vec![f.saturating_sub(1), f, f + 1, f + 3, c.saturating_sub(1), c, c + 1, 4096, 4097, 4098, 70000];
                bufs.push(rng.range(4, 5000));
                // re-use variant: header 3 or 6 bytes shorter
                bufs.push(f.saturating_sub(ll));
                bufs.push(c.saturating_sub(ll));
                for (bi, &b) in bufs.iter().enumerate() {
                    if (cell + bi) % 3 == 0 && bi > 5 {
                        continue;
                    }
                    link.resync();
                    for rep in 0..2 {
                        frag_id = frag_id.wrapping_add(7);
                        let off = rng.below(70_000 - p + 1);
                        let spec = Spec { pdu: &pool[off..off + p], frag_id, label: *label, ptype: *ptype, exts: chain };
                        // tiny fragments only for short PDUs here (t1 does it up to 4200 bytes)
                        let mut fs = frag_sched_lim(cell + bi + rep, p, if cell % 16 == 0 { 4200 } else { 300 });
                        let r = link.send(&spec, b.max(2), &mut *fs, [0usize, 5, 1, 33][(cell + bi + rep) % 4], Mode::Strict, &mut rng);
                        assert_ne!(r, Sent::NotDelivered);
                        pdus += 1;
                    }
                }
            }
        }
    }
    println!("t2: {pdus} PDUs submitted");
    link.st.dump("t2_grid_ext");
}

// ---------------------------------------------------------------------------------------------
// T3: label re-use sequences, explicit ReUse, reconfigurations, protocol types at the borders
// ---------------------------------------------------------------------------------------------

#[test]
fn t3_reuse_sequences() {
    let mut total = Stats::default();
    for seed in 0..24u64 {
        let mut rng = Rng::new(100 + seed);
        let pool = rng.bytes(9000);
        let mut link = Link::std();
        let chains = ext_chains(&mut rng);
        let lbls = [
            Label::SixBytesLabel([9, 9, 9, 9, 9, 9]),
            Label::SixBytesLabel([0, 0, 0, 0, 0, 9]),
            Label::ThreeBytesLabel([0, 0, 0]),
            Label::ThreeBytesLabel([9, 9, 9]),
            Label::Broadcast,
            Label::ReUse,
        ];
        for step in 0..3000 {
            // reconfiguration / frame change
            match rng.below(60) {
                0 => {
                    link.enc.disable_re_use_label();
                    link.tx.disable();
                }
                1 => {
                    link.enc.enable_re_use_label();
                    link.tx.enable(0);
                }
                2 | 3 => {
                    let m = rng.below(4) as u8;
                    link.enc.enable_re_use_label_with_max_consecutive(m);
                    link.tx.enable(m);
                }
                4 | 5 => link.resync(),
                _ => {}
            }
            let label = lbls[rng.below(if seed % 2 == 0 { 6 } else { 5 })];
            let p = match rng.below(6) {
                0 => 0,
                1 => rng.range(1, 10),
                2 => rng.range(4080, 4100),
                _ => rng.range(0, 600),
            };
            let off = rng.below(9000 - p + 1);
            let (exts, ptype): (Vec<Extension>, u16) = if rng.below(3) == 0 {
                let (c, t) = &chains[rng.below(chains.len() - 3)];
                (c.clone(), *t)
            } else {
                (vec![], [0x0600u16, 0x0601, 0x0800, 0xFFFF, 0x0081, 0x0082, 0x0010][rng.below(7)])
            };
            let spec = Spec { pdu: &pool[off..off + p], frag_id: rng.next() as u8, label, ptype, exts: &exts };
            let fb = match rng.below(4) {
                0 => rng.range(2, 30),
                1 => rng.range(30, 700),
                _ => rng.range(700, 5000),
            };
            let mut fs = frag_sched(rng.below(10), p);
            // explicit ReUse with a receiver that has nothing to re-use is a sender misuse: the
            // receiver refuses, the rest of the PDU is lost; everything else must be delivered
            let hopeless = label == Label::ReUse && link.rx_last.is_none();
            let r = link.send(&spec, fb, &mut *fs, rng.below(9), if hopeless { Mode::Lenient } else { Mode::Strict }, &mut rng);
            match r {
                Sent::NotDelivered => {
                    assert!(hopeless, "step {step} seed {seed}");
                    // the receiver has dropped its label (policy): new frame on both sides
                    link.resync();
                }
                _ => {}
            }
        }
        for (k, v) in &link.st.m {
            *total.m.entry(k.clone()).or_insert(0) += v;
        }
    }
    total.dump("t3_reuse_sequences (24 seeds x 3000 PDUs)");
}

#[test]
fn t3b_protocol_type_borders() {
    let mut rng = Rng::new(7);
    let mut link = Link::std();
    let pdu = rng.bytes(5000);
    let mut refused = 0;
    let mut n = 0;
    for ptype in [
        0x0000u16, 0x0001, 0x0008, 0x0010, 0x0018, 0x0019, 0x0081, 0x0082, 0x0083, 0x00FE, 0x00FF, 0x0100, 0x0101, 0x01FF,
        0x0200, 0x02FF, 0x0300, 0x0400, 0x0500, 0x05FE, 0x05FF, 0x0600, 0x0601, 0x06FF, 0x0800, 0x86DD, 0xFFFE, 0xFFFF,
    ] {
        for label in labels() {
            for (p, fb) in [(0usize, 50usize), (1, 50), (40, 50), (40, 30), (5000, 4097), (5000, 70000), (4093, 4097), (4090, 4200)] {
                link.resync();
                for rep in 0..2 {
                    n += 1;
                    let before = link.tx.clone();
                    let spec = Spec { pdu: &pdu[..p], frag_id: (n % 256) as u8, label, ptype, exts: &[] };
                    let md = EncapMetadata::new(ptype, label);
                    if (0x0100..0x0600).contains(&ptype) {
                        // refused by encap: nothing emitted, nothing to peek; the re-use automaton must not move
                        let mut b = vec![0u8; fb];
                        assert_eq!(link.enc.encap(&pdu[..p], 1, md, &mut b), Err(EncapError::ErrorProtocolType));
                        refused += 1;
                        let _ = before;
                        continue;
                    }
                    // protocol types below 0x100 are extension ids for the receiver: some are unknown to
                    // it, some announce data: the receiver may refuse or cut differently (Lenient), the
                    // label / frag id association is checked all the same
                    let strict = ptype >= 0x0600 || matches!(ptype, 0x10 | 0x81 | 0x82);
                    let mut fs = frag_sched(n + rep, p);
                    let r = link.send(&spec, fb, &mut *fs, n % 4, if strict { Mode::Strict } else { Mode::Lenient }, &mut rng);
                    if strict {
                        assert_eq!(r, Sent::Delivered);
                    } else if r != Sent::Delivered {
                        link.resync();
                    }
                }
            }
        }
    }
    println!("t3b: {n} PDUs, {refused} refused by encap (protocol type)");
    link.st.dump("t3b_protocol_type_borders");
}

// ---------------------------------------------------------------------------------------------
// T4: frames: interleaved PDUs, padding, walking with the lengths returned by decap
// ---------------------------------------------------------------------------------------------

struct Flight {
    pdu: Vec<u8>,
    ctx: ContextFrag,
    frag_id: u8,
    true_label: Label,
    ptype: u16,
    exts: Vec<Extension>,
}

struct Rec {
    off: usize,
    len: usize,
    exp: Exp,
    /// payload expected when this packet completes a PDU
    done: Option<(Vec<u8>, u16, Vec<Extension>)>,
}

#[test]
fn t4_frame_walk() {
    let mut st = Stats::default();
    for seed in 0..16u64 {
        let mut rng = Rng::new(1000 + seed);
        let mut enc = Encapsulator::new(DefaultCrc {});
        let mut tx = TxModel::new();
        if seed % 4 == 1 {
            enc.disable_re_use_label();
            tx.disable();
        }
        if seed % 4 == 2 {
            enc.enable_re_use_label_with_max_consecutive(2);
            tx.enable(2);
        }
        let mut dec = mk_dec(256, 65535, 258, 65535);
        let chains = ext_chains(&mut rng);
        let lbls = [
            Label::SixBytesLabel([7, 7, 7, 7, 7, 7]),
            Label::ThreeBytesLabel([0, 0, 0]),
            Label::ThreeBytesLabel([1, 2, 3]),
            Label::Broadcast,
            Label::SixBytesLabel([0, 0, 0, 0, 1, 0]),
        ];
        let mut flights: Vec<Flight> = vec![];
        let mut free_ids: Vec<u8> = (0..=255).collect();
        for frame_no in 0..120 {
            let frame_len = match rng.below(9) {
                0 => rng.range(2, 40),
                1 => rng.range(40, 400),
                2 => 4097,
                3 => 4098,
                4 => rng.range(4000, 4200),
                5 => rng.range(7000, 9000),
                6 => rng.range(15000, 25000),
                7 => 66000,
                _ => rng.range(400, 4000),
            };
            let mut frame = vec![0u8; frame_len];
            let mut off = 0usize;
            let mut recs: Vec<Rec> = vec![];
            // new base band frame
            enc.reset_last_label();
            tx.last = None;
            let mut line_last: Option<Label> = None;
            let mut fails = 0;
            while frame_len - off >= 4 && fails < 6 {
                if rng.below(25) == 0 {
                    break; // leave padding
                }
                let room = frame_len - off;
                let chunk = match rng.below(5) {
                    0 => room,
                    1 => rng.range(4, room.min(40)),
                    2 => rng.range(4, room.min(600)),
                    3 => room.min(4097),
                    _ => rng.range(4, room),
                };
                let cont = !flights.is_empty() && (rng.below(10) < 6 || flights.len() >= 40 || free_ids.is_empty());
                if cont {
                    let i = rng.below(flights.len());
                    let fl = &flights[i];
                    match enc.encap_frag(&fl.pdu, &fl.ctx, &mut frame[off..off + chunk]) {
                        Err(_) => {
                            fails += 1;
                            st.inc("frame: encap_frag refused");
                        }
                        Ok(EncapStatus::FragmentedPkt(n, c)) => {
                            recs.push(Rec {
                                off,
                                len: n as usize,
                                exp: Exp::Cont { end: false, frag_id: fl.frag_id, true_label: Some(fl.true_label) },
                                done: None,
                            });
                            flights[i].ctx = c;
                            off += n as usize;
                        }
                        Ok(EncapStatus::CompletedPkt(n)) => {
                            let fl = flights.swap_remove(i);
                            recs.push(Rec {
                                off,
                                len: n as usize,
                                exp: Exp::Cont { end: true, frag_id: fl.frag_id, true_label: Some(fl.true_label) },
                                done: Some((fl.pdu, fl.ptype, fl.exts)),
                            });
                            free_ids.push(fl.frag_id);
                            off += n as usize;
                        }
                    }
                } else {
                    let mut label = rng.pick(&lbls);
                    if rng.below(12) == 0 && line_last.is_some() && seed % 4 != 1 {
                        label = Label::ReUse; // explicit, the receiver has something to re-use
                    }
                    let p = match rng.below(6) {
                        0 => rng.range(0, 8),
                        1 => rng.range(4080, 4100),
                        2 => rng.range(10000, 65000),
                        _ => rng.range(0, 3000),
                    };
                    let pdu = rng.bytes(p);
                    let (exts, ptype): (Vec<Extension>, u16) = if rng.below(3) == 0 {
                        let (c, t) = &chains[rng.below(chains.len() - 3)];
                        (c.clone(), *t)
                    } else {
                        (vec![], [0x0600u16, 0x0800, 0xFFFF, 0x0081][rng.below(4)])
                    };
                    let k = rng.below(free_ids.len());
                    let frag_id = free_ids[k];
                    let mut t = tx.clone();
                    let emitted = t.emit(label);
                    let md = EncapMetadata::new(ptype, label);
                    let r = if exts.is_empty() {
                        enc.encap(&pdu, frag_id, md, &mut frame[off..off + chunk])
                    } else {
                        enc.encap_ext(&pdu, frag_id, md, &mut frame[off..off + chunk], exts.clone())
                    };
                    let true_label = if emitted == Label::ReUse { line_last } else { Some(emitted) };
                    let exp_exts = if exts.is_empty() && ptype < 0x100 { vec![Extension::new(ptype, &[]).unwrap()] } else { exts.clone() };
                    match r {
                        Err(_) => {
                            fails += 1;
                            st.inc("frame: encap refused");
                        }
                        Ok(status) => {
                            tx = t;
                            match emitted {
                                Label::Broadcast => line_last = None,
                                Label::ReUse => {}
                                l => line_last = Some(l),
                            }
                            match status {
                                EncapStatus::CompletedPkt(n) => {
                                    recs.push(Rec {
                                        off,
                                        len: n as usize,
                                        exp: Exp::Start { complete: true, emitted, true_label, frag_id },
                                        done: Some((pdu, ptype, exp_exts)),
                                    });
                                    off += n as usize;
                                }
                                EncapStatus::FragmentedPkt(n, c) => {
                                    recs.push(Rec {
                                        off,
                                        len: n as usize,
                                        exp: Exp::Start { complete: false, emitted, true_label, frag_id },
                                        done: None,
                                    });
                                    free_ids.swap_remove(k);
                                    flights.push(Flight { pdu, ctx: c, frag_id, true_label: true_label.unwrap(), ptype, exts: exp_exts });
                                    off += n as usize;
                                }
                            }
                        }
                    }
                }
            }
            // ---- the receiver walks the frame
            dec.reset_last_label();
            let mut pos = 0usize;
            let mut i = 0usize;
            while pos < frame_len {
                let buf = &frame[pos..];
                let peek = dec.get_label_or_frag_id(buf);
                dec.memory.log.clear();
                let r = dec.decap(buf);
                if i < recs.len() {
                    let rec = &recs[i];
                    let what = format!("seed {seed} frame {frame_no} (len {frame_len}) packet {i} at {pos}: {:?}", rec.exp);
                    assert_eq!(pos, rec.off, "{what}");
                    check_header(&buf[..rec.len], &rec.exp, &what);
                    assert_eq!(peek, expected_peek(&rec.exp), "peek inside a frame: {what}");
                    assert_eq!(dec.get_label_or_frag_id(&buf[..rec.len]), peek, "peek alone: {what}");
                    st.inc("frame: packets peeked (followed by the rest of the frame)");
                    let (status, n) = match r {
                        Ok(x) => x,
                        Err(e) => panic!("decap {e:?}: {what}"),
                    };
                    assert_eq!(n, rec.len, "{what}");
                    let md = match status {
                        DecapStatus::CompletedPkt(b, md) => {
                            let (pdu, ptype, exts) = rec.done.as_ref().expect(&what);
                            assert_eq!(&b[..md.pdu_len()], &pdu[..], "{what}");
                            assert_eq!(md.protocol_type(), *ptype, "{what}");
                            assert_eq!(md.extensions(), exts, "{what}");
                            dec.provision_storage(b).unwrap();
                            st.inc("frame: PDUs delivered");
                            md
                        }
                        DecapStatus::FragmentedPkt(md) => {
                            assert!(rec.done.is_none(), "{what}");
                            md
                        }
                        DecapStatus::Padding => panic!("padding: {what}"),
                    };
                    match &rec.exp {
                        Exp::Start { true_label, frag_id, complete, .. } => {
                            assert_eq!(Some(md.label()), *true_label, "{what}");
                            if let Ok(LabelorFragId::Lbl(l)) = &peek {
                                assert_eq!(md.label(), *l, "{what}");
                            }
                            if !*complete {
                                assert!(dec.memory.log.contains(&Ev::NewFrag(*frag_id, md.label())), "{what}");
                            }
                        }
                        Exp::Cont { true_label, frag_id, .. } => {
                            assert_eq!(Some(md.label()), *true_label, "{what}");
                            assert_eq!(dec.memory.log.first(), Some(&Ev::TakeFrag(*frag_id)), "{what}");
                            assert_eq!(peek, Ok(LabelorFragId::FragId(*frag_id)), "{what}");
                        }
                    }
                    pos += n;
                    i += 1;
                } else {
                    // padding up to the end of the frame
                    assert!(buf.iter().all(|b| *b == 0));
                    if buf.len() >= 2 {
                        assert_eq!(peek, Err(GetLabelorFragIdError::ErrHeaderRead));
                        assert_eq!(r, Ok((DecapStatus::Padding, buf.len())));
                        st.inc("frame: padding seen");
                    } else {
                        assert_eq!(peek, Err(GetLabelorFragIdError::ErrSizeBuffer));
                        assert_eq!(r, Err((DecapError::ErrorSizeBuffer, buf.len())));
                        st.inc("frame: 1 byte left");
                    }
                    pos = frame_len;
                }
            }
            assert_eq!(i, recs.len(), "all packets of the frame seen");
            st.inc("frames");
        }
    }
    st.dump("t4_frame_walk (16 seeds x 120 frames)");
}

// ---------------------------------------------------------------------------------------------
// T5: receivers of all shapes: 1..256 slots, free list empty / exactly full, storage smaller than /
// equal to / larger than the PDU and larger than 65535; error paths followed by valid traffic
// ---------------------------------------------------------------------------------------------

#[test]
fn t5_memory_variants() {
    let mut rng = Rng::new(55);
    let pool = rng.bytes(70_000);
    let mut total = Stats::default();
    let mut delivered = 0u64;
    let mut lost = 0u64;
    let mut slots_list: Vec<usize> = (1..=17).collect();
    slots_list.extend([31, 32, 33, 64, 100, 128, 200, 254, 255, 256]);
    for &slots in &slots_list {
        for &pdu_len in &[0usize, 1, 200, 3000, 4093, 4097, 65535 - 8] {
            for sv in 0..5 {
                let storage_len = match sv {
                    0 => pdu_len.saturating_sub(1),
                    1 => pdu_len,
                    2 => pdu_len + 1,
                    3 => 65536,
                    _ => 70000,
                };
                for cv in 0..3 {
                    let count = match cv {
                        0 => 0,
                        1 => 1,
                        _ => slots + 2, // free list exactly full
                    };
                    if slots > 17 && pdu_len > 5000 && cv == 2 {
                        continue; // 258 x 64 KiB x 2 per case: keep the run short
                    }
                    let mut link = Link::new(
                        mk_dec(slots, storage_len, count, storage_len),
                        mk_dec(slots, storage_len, count, storage_len),
                    );
                    let label_pool = labels();
                    for k in 0..4usize {
                        let label = label_pool[(slots + k + sv) % label_pool.len()];
                        let frag_id = match k {
                            0 => (slots % 256) as u8,
                            1 => ((2 * slots + 1) % 256) as u8,
                            2 => 255,
                            _ => 0,
                        };
                        let spec = Spec { pdu: &pool[k..k + pdu_len], frag_id, label, ptype: 0x0800, exts: &[] };
                        let fb = [5000usize, 1200, 4097, 15][k];
                        let mut fs = frag_sched(3 + k + sv, pdu_len);
                        let r = link.send(&spec, fb, &mut *fs, k, Mode::Lenient, &mut rng);
                        let can = count > 0 && storage_len >= pdu_len;
                        match r {
                            Sent::Delivered => {
                                assert!(can, "delivered without storage?");
                                delivered += 1;
                            }
                            Sent::NotDelivered => {
                                assert!(!can, "slots={slots} pdu_len={pdu_len} storage={storage_len} count={count} k={k}");
                                lost += 1;
                                link.resync();
                            }
                            Sent::EncapErr(_) => {}
                        }
                    }
                    // valid traffic afterwards: give one storage if the receiver had none, then a PDU that fits
                    if count == 0 {
                        link.da.provision_storage(vec![0u8; storage_len].into_boxed_slice()).unwrap();
                        link.df.provision_storage(vec![0u8; storage_len].into_boxed_slice()).unwrap();
                    }
                    link.resync();
                    for rep in 0..2 {
                        let p = storage_len.min(65535 - 8);
                        let spec = Spec {
                            pdu: &pool[7..7 + p],
                            frag_id: (slots + 3) as u8,
                            label: Label::ThreeBytesLabel([0, 0, 0]),
                            ptype: 0xFFFF,
                            exts: &[],
                        };
                        let mut fs = frag_sched(4 + rep, p);
                        let r = link.send(&spec, 2000, &mut *fs, 3, Mode::Strict, &mut rng);
                        assert_eq!(r, Sent::Delivered, "valid traffic after errors: slots={slots} storage={storage_len}");
                        delivered += 1;
                    }
                    for (k, v) in &link.st.m {
                        *total.m.entry(k.clone()).or_insert(0) += v;
                    }
                }
            }
        }
    }
    println!("t5: delivered {delivered}, not delivered (receiver short of storage) {lost}");
    total.dump("t5_memory_variants");
}

// ---------------------------------------------------------------------------------------------
// T6: restarts, superseded reassemblies, garbage between valid packets, interleaving with few slots
// ---------------------------------------------------------------------------------------------

#[test]
fn t6_restarts_and_errors() {
    let mut rng = Rng::new(66);
    let pool = rng.bytes(70_000);
    let mut st = Stats::default();
    let lbls = labels();
    for round in 0..400usize {
        let slots = [1usize, 2, 3, 8, 256][round % 5];
        let mut link = Link::new(mk_dec(slots, 65535, slots + 2, 65535), mk_dec(slots, 65535, slots + 2, 65535));
        let label = lbls[round % lbls.len()];
        let p = [50usize, 700, 4097, 9000, 65527][round % 5];
        let f = (round * 37 % 256) as u8;
        let pdu = &pool[round..round + p];

        // (a) first fragment + some fragments, then the receiver restarts: the remaining fragments are
        //     refused, but decap still looks up the frag id the peek announces
        let md = EncapMetadata::new(0x0800, label);
        let mut area = vec![0u8; 5000];
        let fb = [20usize, 300, 4097, 2000][round % 4].min(p + 3);
        let r = link.enc.encap(pdu, f, md, &mut area[..fb]).unwrap();
        let emitted = link.tx.emit(label);
        let (n, mut ctx) = match r {
            EncapStatus::FragmentedPkt(n, c) => (n as usize, c),
            _ => panic!("fragment expected"),
        };
        let exp = Exp::Start { complete: false, emitted, true_label: Some(label), frag_id: f };
        let o = check_packet(&mut link.da, &mut link.df, &area[..n + 3], n, &exp, &mut st, "t6a first");
        assert!(matches!(o, Out::Fragmented(_)));
        let mut restarted = false;
        let mut k = 0;
        loop {
            k += 1;
            if k == 2 {
                // restart of both receivers (all contexts lost), and of the sender (encap_frag has no state)
                link.da = mk_dec(slots, 65535, slots + 2, 65535);
                link.df = mk_dec(slots, 65535, slots + 2, 65535);
                link.enc = Encapsulator::new(DefaultCrc {});
                link.tx = TxModel::new();
                restarted = true;
            }
            let b = [9usize, 500, 4097, 4098][(round + k) % 4];
            let r = link.enc.encap_frag(pdu, &ctx, &mut area[..b]).unwrap();
            let (n, end, next) = match r {
                EncapStatus::CompletedPkt(n) => (n as usize, true, None),
                EncapStatus::FragmentedPkt(n, c) => (n as usize, false, Some(c)),
            };
            for x in &mut area[n..n + 4] {
                *x = 0xA5;
            }
            let exp = Exp::Cont { end, frag_id: f, true_label: if restarted { None } else { Some(label) } };
            let o = check_packet(&mut link.da, &mut link.df, &area[..n + 4], n, &exp, &mut st, "t6a cont");
            if restarted {
                assert!(matches!(o, Out::Err(DecapError::ErrorMemory(DecapMemoryError::UndefinedId))), "{o:?}");
            } else {
                assert!(!matches!(o, Out::Err(_)));
            }
            match next {
                Some(c) => ctx = c,
                None => break,
            }
            if k > 40 && !end {
                break; // abandon: (b) will supersede it
            }
        }

        // (b) garbage and damaged packets in front of the receivers, then valid traffic with the same frag id
        for g in 0..6 {
            let junk: Vec<u8> = match g {
                0 => vec![0xFF, 0xFF],
                1 => rng.bytes(11),
                2 => vec![0x40, 0x05, f, 1, 2, 3, 4], // an end packet nobody announced
                3 => vec![0xC0, 0x02, 0x00, 0xFF],   // unknown mandatory extension
                4 => vec![0x80, 0x0B, f, 0x00, 0x02, 0x08, 0x00, 9, 9, 9, 9, 9, 9], // total length too short
                _ => vec![0xC0],
            };
            let _ = link.da.get_label_or_frag_id(&junk);
            let _ = link.da.decap(&junk).map(|(s, _)| {
                if let DecapStatus::CompletedPkt(b, _) = s {
                    Some(b)
                } else {
                    None
                }
            });
            let _ = link.df.decap(&junk);
            st.inc("junk buffers shown to the receivers");
        }
        // the junk may have consumed storages (a random buffer can be a valid complete packet): start from clean receivers
        if round % 2 == 0 {
            link.da = mk_dec(slots, 65535, slots + 2, 65535);
            link.df = mk_dec(slots, 65535, slots + 2, 65535);
        }
        link.resync();
        link.rx_last = None;
        // first fragment abandoned, then a complete new PDU under the same frag id
        let md2 = EncapMetadata::new(0xFFFF, lbls[(round + 1) % lbls.len()]);
        let r = link.enc.encap(&pool[..300], f, md2, &mut area[..40]).unwrap();
        let em = link.tx.emit(md2.label);
        if let EncapStatus::FragmentedPkt(n, _) = r {
            let exp = Exp::Start { complete: false, emitted: em, true_label: Some(md2.label), frag_id: f };
            let n = n as usize;
            let o = check_packet(&mut link.da, &mut link.df, &area[..n], n, &exp, &mut st, "t6b abandoned first");
            assert!(matches!(o, Out::Fragmented(_)), "{o:?} round {round}");
            link.upd_rx(em);
        } else {
            panic!()
        }
        for rep in 0..3 {
            let spec = Spec { pdu, frag_id: f, label, ptype: 0x0600, exts: &[] };
            let mut fs = frag_sched(round + rep, p);
            let r = link.send(&spec, [30usize, 4097, 600][rep].min(p + 5), &mut *fs, rep, Mode::Strict, &mut rng);
            assert_eq!(r, Sent::Delivered, "round {round}");
        }
        for (k, v) in &link.st.m {
            *st.m.entry(k.clone()).or_insert(0) += v;
        }
    }
    st.dump("t6_restarts_and_errors (400 rounds)");
}

// interleaving of several PDUs on a receiver with few slots (frag ids distinct modulo the slots)
#[test]
fn t6b_interleaving_few_slots() {
    let mut rng = Rng::new(77);
    let mut st = Stats::default();
    for slots in [1usize, 2, 3, 4, 7, 16, 64, 256] {
        for round in 0..30usize {
            let mut da = mk_dec(slots, 20000, slots + 2, 20000);
            let mut df = mk_dec(slots, 20000, slots + 2, 20000);
            let mut enc = Encapsulator::new(DefaultCrc {});
            let mut tx = TxModel::new();
            let mut line_last: Option<Label> = None;
            let lbls = labels();
            let n = slots.min(12);
            let base = rng.below(256);
            let mut fl: Vec<Flight> = vec![];
            let mut area = vec![0u8; 6000];
            // n first fragments
            for j in 0..n {
                let frag_id = ((base + j) % 256) as u8; // consecutive ids: distinct modulo slots as n <= slots ... unless wrap
                if (base + j) >= 256 && 256 % slots != 0 {
                    continue;
                }
                let label = lbls[rng.below(lbls.len())];
                let p = rng.range(30, 12000);
                let pdu = rng.bytes(p);
                let fb = rng.range(13, 29).min(p + 5);
                let mut t = tx.clone();
                let emitted = t.emit(label);
                let r = enc.encap(&pdu, frag_id, EncapMetadata::new(0x0800, label), &mut area[..fb]).unwrap();
                tx = t;
                let true_label = if emitted == Label::ReUse { line_last } else { Some(emitted) };
                match emitted {
                    Label::Broadcast => line_last = None,
                    Label::ReUse => {}
                    l => line_last = Some(l),
                }
                let (len, c) = match r {
                    EncapStatus::FragmentedPkt(len, c) => (len as usize, c),
                    _ => panic!(),
                };
                let exp = Exp::Start { complete: false, emitted, true_label, frag_id };
                for x in &mut area[len..len + 2] {
                    *x = rng.next() as u8;
                }
                let o = check_packet(&mut da, &mut df, &area[..len + 2], len, &exp, &mut st, &format!("t6b first slots={slots} round={round} j={j}"));
                assert!(matches!(o, Out::Fragmented(_)), "{o:?}");
                fl.push(Flight { pdu, ctx: c, frag_id, true_label: true_label.unwrap(), ptype: 0x0800, exts: vec![] });
            }
            // random interleaving of the continuations
            while !fl.is_empty() {
                let i = rng.below(fl.len());
                let b = [5usize, 64, 1000, 4097, 6000][rng.below(5)];
                let r = enc.encap_frag(&fl[i].pdu, &fl[i].ctx, &mut area[..b]);
                let (len, end) = match r {
                    Err(EncapError::ErrorSizeBuffer) => continue,
                    Err(e) => panic!("{e:?}"),
                    Ok(EncapStatus::FragmentedPkt(len, c)) => {
                        fl[i].ctx = c;
                        (len as usize, false)
                    }
                    Ok(EncapStatus::CompletedPkt(len)) => (len as usize, true),
                };
                let exp = Exp::Cont { end, frag_id: fl[i].frag_id, true_label: Some(fl[i].true_label) };
                let o = check_packet(&mut da, &mut df, &area[..len], len, &exp, &mut st, &format!("t6b cont slots={slots} round={round}"));
                match o {
                    Out::Err(e) => panic!("{e:?} slots={slots} round={round}"),
                    Out::Completed(v, _) => {
                        assert!(end);
                        assert_eq!(v, fl[i].pdu);
                        fl.swap_remove(i);
                        st.inc("interleaved PDUs delivered");
                    }
                    Out::Fragmented(_) => assert!(!end),
                }
            }
        }
    }
    st.dump("t6b_interleaving_few_slots");
}
