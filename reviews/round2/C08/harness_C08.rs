// harness_C08.rs -- model-based / differential harness for property C08
// "Storage buffers are conserved: never leaked, never duplicated".
// Public API only.  Run with:
//   cp out/harness_C08.rs tests/harness_c08.rs
//   CARGO_NET_OFFLINE=true cargo test --offline --test harness_c08 -- --nocapture --test-threads=1
//   (same with --release)
#![allow(dead_code, clippy::all)]

use dvb_gse_rust::crc::{CrcCalculator, DefaultCrc};
use dvb_gse_rust::gse_decap::gse_decap_memory::MemoryContext;
use dvb_gse_rust::gse_decap::{
    DecapContext, DecapError, DecapMemoryError, DecapStatus, Decapsulator, GseDecapMemory,
    SimpleGseMemory,
};
use dvb_gse_rust::gse_encap::{EncapMetadata, EncapStatus, Encapsulator};
use dvb_gse_rust::header_extension::{
    Extension, MandatoryHeaderExt, MandatoryHeaderExtensionManager,
};
use dvb_gse_rust::label::Label;
use std::cell::{Cell, RefCell};
use std::collections::BTreeMap;
use std::rc::Rc;

// ---------------------------------------------------------------- identities
/// identity of a storage buffer: heap address + length (zero-length boxes all
/// share one identity, they are handled as a multiset)
type Id = (usize, usize);
fn id_of(b: &Box<[u8]>) -> Id {
    (if b.is_empty() { 0 } else { b.as_ptr() as usize }, b.len())
}

// ---------------------------------------------------------------- rng
struct Rng(u64);
impl Rng {
    fn next(&mut self) -> u64 {
        self.0 = self.0.wrapping_add(0x9E37_79B9_7F4A_7C15);
        let mut z = self.0;
        z = (z ^ (z >> 30)).wrapping_mul(0xBF58_476D_1CE4_E5B9);
        z = (z ^ (z >> 27)).wrapping_mul(0x94D0_49BB_1331_11EB);
        z ^ (z >> 31)
    }
    fn below(&mut self, n: usize) -> usize {
        if n == 0 {
            0
        } else {
            (self.next() % n as u64) as usize
        }
    }
    fn chance(&mut self, num: usize, den: usize) -> bool {
        self.below(den) < num
    }
    fn pick<T: Copy>(&mut self, s: &[T]) -> T {
        s[self.below(s.len())]
    }
    fn bytes(&mut self, n: usize) -> Vec<u8> {
        let mut v = Vec::with_capacity(n);
        let mut x = self.next();
        for i in 0..n {
            if i % 8 == 0 {
                x = self.next();
            }
            v.push((x >> ((i % 8) * 8)) as u8);
        }
        v
    }
}

// ---------------------------------------------------------------- stats
#[derive(Default)]
struct Stats(BTreeMap<String, u64>);
impl Stats {
    fn hit(&mut self, k: &str) {
        *self.0.entry(k.to_string()).or_insert(0) += 1;
    }
    fn add(&mut self, k: &str, n: u64) {
        *self.0.entry(k.to_string()).or_insert(0) += n;
    }
    fn merge(&mut self, o: &Stats) {
        for (k, v) in &o.0 {
            *self.0.entry(k.clone()).or_insert(0) += v;
        }
    }
    fn print(&self, title: &str) {
        println!("==== {title}");
        for (k, v) in &self.0 {
            println!("    {k:<44} {v}");
        }
    }
}

// ---------------------------------------------------------------- extension manager
#[derive(Clone, Copy)]
struct Mgr;
fn mgr(id: u16) -> MandatoryHeaderExt {
    match id {
        0x00..=0x08 => MandatoryHeaderExt::NonFinal(id as u8),
        0x10..=0x18 => MandatoryHeaderExt::Final((id - 0x10) as u8),
        0x81 | 0x82 => MandatoryHeaderExt::Final(0),
        _ => MandatoryHeaderExt::Unknown,
    }
}
impl MandatoryHeaderExtensionManager for Mgr {
    fn is_mandatory_header_id_known(&self, id: u16) -> MandatoryHeaderExt {
        mgr(id)
    }
}

// ---------------------------------------------------------------- faults
const F_NEWPDU: u8 = 1;
const F_PROV: u8 = 2;
const F_NEWFRAG: u8 = 4;
const F_TAKE: u8 = 8;
const F_SAVE: u8 = 16;
const OPN: [&str; 5] = ["new_pdu", "provision_storage", "new_frag", "take_frag", "save_frag"];

#[derive(Default)]
struct Ctl {
    fail: Cell<u8>,
    /// 0: a failing save_frag gives the buffer back inside StorageOverflow
    /// 1: a failing save_frag keeps the buffer (free list) and answers MemoryCorrupted
    save_mode: Cell<u8>,
    /// ledger: every buffer the memory currently holds, by identity
    held: RefCell<Vec<Id>>,
    calls: RefCell<[u32; 5]>,
    total_calls: RefCell<[u64; 5]>,
    fired: RefCell<[u64; 5]>,
}
impl Ctl {
    fn call(&self, op: usize, bit: u8) -> bool {
        self.calls.borrow_mut()[op] += 1;
        self.total_calls.borrow_mut()[op] += 1;
        if self.fail.get() & bit != 0 {
            self.fired.borrow_mut()[op] += 1;
            true
        } else {
            false
        }
    }
    fn gain(&self, id: Id) {
        self.held.borrow_mut().push(id);
    }
    fn lose(&self, id: Id) {
        let mut h = self.held.borrow_mut();
        let p = h
            .iter()
            .position(|x| *x == id)
            .expect("C08: the memory handed out a buffer it was not holding (duplicate)");
        h.swap_remove(p);
    }
}

/// Fault-injecting, ledger-keeping wrapper around the crate's SimpleGseMemory.
/// It never loses a buffer itself: a refused buffer is either returned in the
/// error value or kept in the free list.
struct Faulty {
    inner: SimpleGseMemory,
    ctl: Rc<Ctl>,
}
impl GseDecapMemory for Faulty {
    fn new(a: usize, b: usize, c: usize, d: usize) -> Self {
        Faulty { inner: SimpleGseMemory::new(a, b, c, d), ctl: Rc::new(Ctl::default()) }
    }
    fn provision_storage(&mut self, s: Box<[u8]>) -> Result<(), DecapMemoryError> {
        if self.ctl.call(1, F_PROV) {
            return Err(DecapMemoryError::StorageOverflow(s));
        }
        let id = id_of(&s);
        self.inner.provision_storage(s)?;
        self.ctl.gain(id);
        Ok(())
    }
    fn new_pdu(&mut self) -> Result<Box<[u8]>, DecapMemoryError> {
        if self.ctl.call(0, F_NEWPDU) {
            return Err(DecapMemoryError::StorageUnderflow);
        }
        let b = self.inner.new_pdu()?;
        self.ctl.lose(id_of(&b));
        Ok(b)
    }
    fn new_frag(&mut self, c: DecapContext) -> Result<MemoryContext, DecapMemoryError> {
        if self.ctl.call(2, F_NEWFRAG) {
            return Err(DecapMemoryError::StorageUnderflow);
        }
        let (c, b) = self.inner.new_frag(c)?;
        self.ctl.lose(id_of(&b));
        Ok((c, b))
    }
    fn take_frag(&mut self, f: u8) -> Result<MemoryContext, DecapMemoryError> {
        if self.ctl.call(3, F_TAKE) {
            return Err(DecapMemoryError::UndefinedId);
        }
        let (c, b) = self.inner.take_frag(f)?;
        self.ctl.lose(id_of(&b));
        Ok((c, b))
    }
    fn save_frag(&mut self, m: MemoryContext) -> Result<(), DecapMemoryError> {
        let id = id_of(&m.1);
        if self.ctl.call(4, F_SAVE) {
            if self.ctl.save_mode.get() == 0 {
                return Err(DecapMemoryError::StorageOverflow(m.1));
            }
            self.inner.provision_storage(m.1)?;
            self.ctl.gain(id);
            return Err(DecapMemoryError::MemoryCorrupted);
        }
        self.inner.save_frag(m)?;
        self.ctl.gain(id);
        Ok(())
    }
}

trait Mem: GseDecapMemory {
    fn build(n: usize, max_pdu: usize) -> Self;
    fn simple(&self) -> &SimpleGseMemory;
    fn simple_mut(&mut self) -> &mut SimpleGseMemory;
    fn ctl(&self) -> Option<Rc<Ctl>>;
}
impl Mem for SimpleGseMemory {
    fn build(n: usize, max_pdu: usize) -> Self {
        SimpleGseMemory::new(n, max_pdu, 0, 0)
    }
    fn simple(&self) -> &SimpleGseMemory {
        self
    }
    fn simple_mut(&mut self) -> &mut SimpleGseMemory {
        self
    }
    fn ctl(&self) -> Option<Rc<Ctl>> {
        None
    }
}
impl Mem for Faulty {
    fn build(n: usize, max_pdu: usize) -> Self {
        <Faulty as GseDecapMemory>::new(n, max_pdu, 0, 0)
    }
    fn simple(&self) -> &SimpleGseMemory {
        &self.inner
    }
    fn simple_mut(&mut self) -> &mut SimpleGseMemory {
        &mut self.inner
    }
    fn ctl(&self) -> Option<Rc<Ctl>> {
        Some(self.ctl.clone())
    }
}

// ---------------------------------------------------------------- reference model
#[derive(Debug, Clone, Copy, PartialEq, Eq, PartialOrd, Ord)]
enum EK {
    SizeBuffer,
    TotalLength,
    GseLength,
    SizePduBuffer,
    ProtocolType,
    Crc,
    InvalidLabel,
    NoLabelSaved,
    LabelBroadcastSaved,
    LabelReUseSaved,
    UnknownMandatory,
    MemOverflow,
    MemUnderflow,
    MemUndefinedId,
    MemTooSmall,
    MemCorrupted,
}

fn classify(e: DecapError) -> (EK, Option<Box<[u8]>>) {
    match e {
        DecapError::ErrorSizeBuffer => (EK::SizeBuffer, None),
        DecapError::ErrorTotalLength => (EK::TotalLength, None),
        DecapError::ErrorGseLength => (EK::GseLength, None),
        DecapError::ErrorSizePduBuffer => (EK::SizePduBuffer, None),
        DecapError::ErrorProtocolType => (EK::ProtocolType, None),
        DecapError::ErrorCrc => (EK::Crc, None),
        DecapError::ErrorInvalidLabel => (EK::InvalidLabel, None),
        DecapError::ErrorNoLabelSaved => (EK::NoLabelSaved, None),
        DecapError::ErrorLabelBroadcastSaved => (EK::LabelBroadcastSaved, None),
        DecapError::ErrorLabelReUseSaved => (EK::LabelReUseSaved, None),
        DecapError::ErrorUnkownMandatoryHeader => (EK::UnknownMandatory, None),
        DecapError::ErrorMemory(m) => classify_mem(m),
    }
}
fn classify_mem(m: DecapMemoryError) -> (EK, Option<Box<[u8]>>) {
    match m {
        DecapMemoryError::StorageOverflow(b) => (EK::MemOverflow, Some(b)),
        DecapMemoryError::BufferTooSmall(b) => (EK::MemTooSmall, Some(b)),
        DecapMemoryError::StorageUnderflow => (EK::MemUnderflow, None),
        DecapMemoryError::UndefinedId => (EK::MemUndefinedId, None),
        DecapMemoryError::MemoryCorrupted => (EK::MemCorrupted, None),
    }
}

#[derive(Debug, Clone, PartialEq)]
enum Exp {
    Padding(usize),
    Completed { buf: Id, pdu: Vec<u8>, proto: u16, label: Label, exts: Vec<Extension>, consumed: usize },
    Fragmented { proto: u16, label: Label, exts: Vec<Extension>, consumed: usize },
    Err { kind: EK, consumed: usize, handed: Option<Id> },
}
impl Exp {
    fn name(&self) -> String {
        match self {
            Exp::Padding(_) => "ok:Padding".into(),
            Exp::Completed { .. } => "ok:Completed".into(),
            Exp::Fragmented { .. } => "ok:Fragmented".into(),
            Exp::Err { kind, handed, .. } => {
                format!("err:{:?}{}", kind, if handed.is_some() { "+buffer handed to caller" } else { "" })
            }
        }
    }
}
fn err(kind: EK, consumed: usize) -> Exp {
    Exp::Err { kind, consumed, handed: None }
}

enum WalkErr {
    Unknown,
    TooSmall,
}
/// header extension chain walker (returns extensions, effective protocol type, bytes used)
fn walk(p: &[u8], first: u16) -> Result<(Vec<Extension>, u16, usize), WalkErr> {
    let mut off = 0usize;
    let mut pt = first;
    let mut exts = vec![];
    while pt < 0x600 {
        let hlen = (pt >> 8) as usize;
        let (size, fin) = if hlen == 0 {
            match mgr(pt) {
                MandatoryHeaderExt::Unknown => return Err(WalkErr::Unknown),
                MandatoryHeaderExt::Final(s) => (s as usize, true),
                MandatoryHeaderExt::NonFinal(s) => (s as usize, false),
            }
        } else {
            ([0usize, 2, 4, 6, 8][hlen - 1], false)
        };
        if p.len() < off + size {
            return Err(WalkErr::TooSmall);
        }
        exts.push(Extension::new(pt, &p[off..off + size]).unwrap());
        off += size;
        if fin {
            break;
        }
        if p.len() < off + 2 {
            return Err(WalkErr::TooSmall);
        }
        pt = u16::from_be_bytes([p[off], p[off + 1]]);
        off += 2;
    }
    Ok((exts, pt, off))
}

#[derive(Debug, Clone)]
struct MCtx {
    label: Label,
    proto: u16,
    fid: u8,
    total: u16,
    reuse: bool,
    exts: Vec<Extension>,
    data: Vec<u8>,
    buf: Id,
}

struct Model {
    n: usize,
    max_pdu: usize,
    cap: usize,
    free: Vec<Id>, // stack, top = last
    slots: Vec<Option<MCtx>>,
    last: Option<Label>,
}

fn label_of(lt: usize, b: &[u8]) -> Label {
    match lt {
        0 => Label::SixBytesLabel(b.try_into().unwrap()),
        1 => Label::ThreeBytesLabel(b.try_into().unwrap()),
        2 => Label::Broadcast,
        _ => Label::ReUse,
    }
}

impl Model {
    fn new(n: usize, max_pdu: usize) -> Self {
        Model { n, max_pdu, cap: n + 2, free: vec![], slots: vec![None; n], last: None }
    }
    fn held(&self) -> Vec<Id> {
        let mut v = self.free.clone();
        v.extend(self.slots.iter().flatten().map(|c| c.buf));
        v
    }
    fn busy(&self) -> usize {
        self.slots.iter().flatten().count()
    }
    fn provision(&mut self, id: Id, f: u8) -> Result<(), (EK, Id)> {
        if f & F_PROV != 0 {
            return Err((EK::MemOverflow, id));
        }
        if self.free.len() == self.cap {
            return Err((EK::MemOverflow, id));
        }
        if id.1 < self.max_pdu {
            return Err((EK::MemTooSmall, id));
        }
        self.free.push(id);
        Ok(())
    }
    fn give_back(&mut self, id: Id, kind: EK, consumed: usize, f: u8) -> Exp {
        match self.provision(id, f) {
            Ok(()) => err(kind, consumed),
            Err((k, id)) => Exp::Err { kind: k, consumed, handed: Some(id) },
        }
    }
    fn drop_pending(&mut self, fid: u8, f: u8) -> Result<(), (EK, Id)> {
        if f & F_TAKE != 0 {
            return Ok(());
        }
        let idx = fid as usize % self.n;
        if matches!(&self.slots[idx], Some(c) if c.fid == fid) {
            let c = self.slots[idx].take().unwrap();
            return self.provision(c.buf, f);
        }
        Ok(())
    }
    fn save_fault(&mut self, id: Id, consumed: usize, mode: u8) -> Exp {
        if mode == 0 {
            return Exp::Err { kind: EK::MemOverflow, consumed, handed: Some(id) };
        }
        match self.provision(id, 0) {
            Ok(()) => err(EK::MemCorrupted, consumed),
            Err((k, id)) => Exp::Err { kind: k, consumed, handed: Some(id) },
        }
    }
    fn resolve(&mut self, lt: usize, label: Label) -> Result<Label, EK> {
        match lt {
            3 => match self.last {
                Some(Label::Broadcast) => {
                    self.last = None;
                    Err(EK::LabelBroadcastSaved)
                }
                Some(Label::ReUse) => {
                    self.last = None;
                    Err(EK::LabelReUseSaved)
                }
                None => Err(EK::NoLabelSaved),
                Some(l) => Ok(l),
            },
            2 => {
                self.last = None;
                Ok(Label::Broadcast)
            }
            _ => {
                self.last = Some(label);
                Ok(label)
            }
        }
    }
    fn take(&mut self, fid: u8, f: u8) -> Option<MCtx> {
        if f & F_TAKE != 0 {
            return None;
        }
        let idx = fid as usize % self.n;
        if matches!(&self.slots[idx], Some(c) if c.fid == fid) {
            self.slots[idx].take()
        } else {
            None
        }
    }

    fn decap(&mut self, b: &[u8], f: u8, mode: u8) -> Exp {
        let bl = b.len();
        if bl < 2 {
            self.last = None;
            return err(EK::SizeBuffer, bl);
        }
        let h = u16::from_be_bytes([b[0], b[1]]);
        let (s, e) = (h & 0x8000 != 0, h & 0x4000 != 0);
        let lt = ((h >> 12) & 3) as usize;
        let gse = (h & 0x0fff) as usize;
        if !s && !e && lt == 0 {
            self.last = None;
            return Exp::Padding(bl);
        }
        let pl = gse + 2;
        if bl < pl {
            self.last = None;
            return err(EK::SizeBuffer, bl);
        }
        let ll = [6usize, 3, 0, 0][lt];
        match (s, e) {
            (true, true) => {
                if gse < ll + 2 {
                    self.last = None;
                    return err(EK::GseLength, bl);
                }
                let pt = u16::from_be_bytes([b[2], b[3]]);
                let label = label_of(lt, &b[4..4 + ll]);
                let off = 4 + ll;
                if label == Label::SixBytesLabel([0; 6]) {
                    self.last = None;
                    return err(EK::InvalidLabel, pl);
                }
                let (exts, proto, hext) = if pt < 0x600 {
                    match walk(&b[off..pl], pt) {
                        Err(WalkErr::TooSmall) => {
                            self.last = None;
                            return err(EK::SizePduBuffer, bl);
                        }
                        Err(WalkErr::Unknown) => {
                            self.last = None;
                            return err(EK::UnknownMandatory, pl);
                        }
                        Ok(r) => r,
                    }
                } else {
                    (vec![], pt, 0)
                };
                let cur = match self.resolve(lt, label) {
                    Ok(l) => l,
                    Err(k) => {
                        self.last = None;
                        return err(k, pl);
                    }
                };
                if f & F_NEWPDU != 0 || self.free.is_empty() {
                    self.last = None;
                    return err(EK::MemUnderflow, pl);
                }
                let buf = self.free.pop().unwrap();
                if buf.1 + ll + hext + 2 < gse {
                    self.last = None;
                    return self.give_back(buf, EK::SizePduBuffer, pl, f);
                }
                let n = gse - ll - hext - 2;
                Exp::Completed {
                    buf,
                    pdu: b[off + hext..off + hext + n].to_vec(),
                    proto,
                    label: cur,
                    exts,
                    consumed: pl,
                }
            }
            (true, false) => {
                if gse < ll + 5 {
                    self.last = None;
                    return err(EK::GseLength, bl);
                }
                let fid = b[2];
                let total = u16::from_be_bytes([b[3], b[4]]);
                let pt = u16::from_be_bytes([b[5], b[6]]);
                let label = label_of(lt, &b[7..7 + ll]);
                let off = 7 + ll;
                macro_rules! reject {
                    ($kind:expr, $consumed:expr) => {{
                        self.last = None;
                        if let Err((k, id)) = self.drop_pending(fid, f) {
                            return Exp::Err { kind: k, consumed: $consumed, handed: Some(id) };
                        }
                        return err($kind, $consumed);
                    }};
                }
                if label == Label::SixBytesLabel([0; 6]) {
                    reject!(EK::InvalidLabel, pl);
                }
                let cur = match self.resolve(lt, label) {
                    Ok(l) => l,
                    Err(k) => reject!(k, pl),
                };
                let (exts, proto, hext) = if pt < 0x600 {
                    match walk(&b[off..pl], pt) {
                        Err(WalkErr::TooSmall) => reject!(EK::SizePduBuffer, bl),
                        Err(WalkErr::Unknown) => reject!(EK::UnknownMandatory, pl),
                        Ok(r) => r,
                    }
                } else {
                    (vec![], pt, 0)
                };
                let n = gse - (5 + ll + hext);
                if total as usize <= n {
                    reject!(EK::TotalLength, bl);
                }
                if f & F_NEWFRAG != 0 {
                    self.last = None;
                    return err(EK::MemUnderflow, pl);
                }
                let idx = fid as usize % self.n;
                let buf = if let Some(old) = self.slots[idx].take() {
                    old.buf
                } else if let Some(x) = self.free.pop() {
                    x
                } else {
                    self.last = None;
                    return err(EK::MemUnderflow, pl);
                };
                if buf.1 < n {
                    self.last = None;
                    return self.give_back(buf, EK::SizePduBuffer, pl, f);
                }
                let ctx = MCtx {
                    label: cur,
                    proto,
                    fid,
                    total,
                    reuse: lt == 3,
                    exts: exts.clone(),
                    data: b[off + hext..off + hext + n].to_vec(),
                    buf,
                };
                if f & F_SAVE != 0 {
                    return self.save_fault(buf, pl, mode);
                }
                self.slots[idx] = Some(ctx);
                Exp::Fragmented { proto, label: cur, exts, consumed: pl }
            }
            (false, false) => {
                if gse <= 1 {
                    self.last = None;
                    return err(EK::GseLength, bl);
                }
                let fid = b[2];
                let n = gse - 1;
                let Some(mut ctx) = self.take(fid, f) else {
                    return err(EK::MemUndefinedId, pl);
                };
                if ctx.buf.1 - ctx.data.len() < n {
                    return self.give_back(ctx.buf, EK::SizePduBuffer, pl, f);
                }
                if ctx.data.len() + n > 65535 {
                    return self.give_back(ctx.buf, EK::TotalLength, pl, f);
                }
                ctx.data.extend_from_slice(&b[3..3 + n]);
                if f & F_SAVE != 0 {
                    return self.save_fault(ctx.buf, pl, mode);
                }
                let r = Exp::Fragmented {
                    proto: ctx.proto,
                    label: ctx.label,
                    exts: ctx.exts.clone(),
                    consumed: pl,
                };
                let idx = fid as usize % self.n;
                self.slots[idx] = Some(ctx);
                r
            }
            (false, true) => {
                if gse < 5 {
                    self.last = None;
                    return err(EK::SizeBuffer, bl);
                }
                let fid = b[2];
                let n = gse - 5;
                let Some(mut ctx) = self.take(fid, f) else {
                    return err(EK::MemUndefinedId, pl);
                };
                if ctx.buf.1 - ctx.data.len() < n {
                    return self.give_back(ctx.buf, EK::SizePduBuffer, pl, f);
                }
                ctx.data.extend_from_slice(&b[3..3 + n]);
                let lb: Vec<u8> = if ctx.reuse { vec![] } else { ctx.label.get_bytes().to_vec() };
                if ctx.total as usize != ctx.data.len() + 2 + lb.len() {
                    return self.give_back(ctx.buf, EK::TotalLength, pl, f);
                }
                let crc = DefaultCrc {}.calculate_crc32(&ctx.data, ctx.proto, ctx.total, &lb);
                let rx = u32::from_be_bytes(b[3 + n..3 + n + 4].try_into().unwrap());
                if crc != rx {
                    return self.give_back(ctx.buf, EK::Crc, pl, f);
                }
                Exp::Completed {
                    buf: ctx.buf,
                    pdu: ctx.data,
                    proto: ctx.proto,
                    label: ctx.label,
                    exts: ctx.exts,
                    consumed: pl,
                }
            }
        }
    }
}

// ---------------------------------------------------------------- the world: SUT + model + caller
struct World<M: Mem> {
    d: Decapsulator<M, DefaultCrc, Mgr>,
    ctl: Option<Rc<Ctl>>,
    model: Model,
    /// every buffer ever created by the caller for this receiver
    universe: Vec<Id>,
    /// buffers currently owned by the caller
    caller: Vec<Box<[u8]>>,
    stats: Stats,
    step: usize,
    snap_every: usize,
    trace: Vec<String>,
}

fn sorted(mut v: Vec<Id>) -> Vec<Id> {
    v.sort();
    v
}

impl<M: Mem> World<M> {
    fn new(n: usize, max_pdu: usize, snap_every: usize) -> Self {
        let mem = M::build(n, max_pdu);
        let ctl = mem.ctl();
        World {
            d: Decapsulator::new(mem, DefaultCrc {}, Mgr),
            ctl,
            model: Model::new(n, max_pdu),
            universe: vec![],
            caller: vec![],
            stats: Stats::default(),
            step: 0,
            snap_every,
            trace: vec![],
        }
    }
    fn log(&mut self, s: String) {
        if self.trace.len() > 60 {
            self.trace.remove(0);
        }
        self.trace.push(s);
    }
    fn fail(&self, msg: String) -> ! {
        panic!("{msg}\n--- last operations ---\n{}", self.trace.join("\n"));
    }

    /// the caller creates a fresh buffer and provisions it
    fn provision_new(&mut self, size: usize) -> bool {
        let b = vec![0xA5u8; size].into_boxed_slice();
        self.universe.push(id_of(&b));
        self.provision(b)
    }
    /// the caller provisions one of the buffers it owns
    fn provision_back(&mut self, idx: usize) -> bool {
        if self.caller.is_empty() {
            return false;
        }
        let i = idx % self.caller.len();
        let b = self.caller.swap_remove(i);
        self.provision(b)
    }
    fn provision(&mut self, b: Box<[u8]>) -> bool {
        let id = id_of(&b);
        self.log(format!("provision {:?}", id));
        if let Some(c) = &self.ctl {
            c.fail.set(0);
        }
        let exp = self.model.provision(id, 0);
        let obs = self.d.provision_storage(b);
        let ok = match (exp, obs) {
            (Ok(()), Ok(())) => {
                self.stats.hit("provision:ok");
                true
            }
            (Err((k, eid)), Err(e)) => {
                let (ok_, buf) = classify_mem(e);
                let buf = buf.unwrap_or_else(|| self.fail("provision error without buffer".into()));
                if ok_ != k || id_of(&buf) != eid {
                    self.fail(format!("provision: expected {:?} got {:?}", k, ok_));
                }
                self.stats.hit(&format!("provision:refused {:?} (buffer back to caller)", k));
                self.caller.push(buf);
                false
            }
            (e, o) => self.fail(format!("provision mismatch: model {:?} / sut {:?}", e, o.is_ok())),
        };
        self.check();
        ok
    }
    /// the caller takes a buffer out (Decapsulator::new_pdu)
    fn caller_takes(&mut self) {
        self.log("new_pdu (caller)".into());
        match (self.model.free.pop(), self.d.new_pdu()) {
            (Some(id), Ok(b)) => {
                if id_of(&b) != id {
                    self.fail("new_pdu: wrong buffer".into());
                }
                self.caller.push(b);
                self.stats.hit("caller new_pdu:ok");
            }
            (None, Err(DecapMemoryError::StorageUnderflow)) => self.stats.hit("caller new_pdu:underflow"),
            _ => self.fail("new_pdu mismatch".into()),
        }
        self.check();
    }
    /// the receiver is restarted around the same memory: reassemblies and storage are kept,
    /// the remembered label is lost
    fn restart(&mut self) {
        self.log("restart (new Decapsulator around the same memory)".into());
        let mut mem = M::build(self.model.n, self.model.max_pdu);
        std::mem::swap(&mut self.d.memory, &mut mem);
        self.d = Decapsulator::new(mem, DefaultCrc {}, Mgr);
        self.model.last = None;
        self.stats.hit("restart of the receiver");
        self.check();
    }
    fn reset(&mut self) {
        self.log("reset_last_label".into());
        self.d.reset_last_label();
        self.model.last = None;
        self.stats.hit("reset_last_label");
        self.check();
    }

    /// one decap call; returns (expected==observed outcome, consumed)
    fn decap(&mut self, bytes: &[u8], faults: u8) -> (Exp, usize) {
        let mode = self.ctl.as_ref().map(|c| c.save_mode.get()).unwrap_or(0);
        let faults = if self.ctl.is_some() { faults } else { 0 };
        if let Some(c) = &self.ctl {
            c.fail.set(faults);
            *c.calls.borrow_mut() = [0; 5];
        }
        let head: Vec<u8> = bytes.iter().take(16).cloned().collect();
        self.log(format!("decap len={} faults={:#x} head={:02x?}", bytes.len(), faults, head));
        let fired_before = self.ctl.as_ref().map(|c| *c.fired.borrow());
        let exp = self.model.decap(bytes, faults, mode);
        let res = self.d.decap(bytes);
        if let Some(c) = &self.ctl {
            c.fail.set(0);
            for (i, n) in c.calls.borrow().iter().enumerate() {
                if *n > 1 {
                    self.fail(format!("harness assumption broken: {} called {} times in one decap", OPN[i], n));
                }
            }
            let fb = fired_before.unwrap();
            let fa = *c.fired.borrow();
            for i in 0..5 {
                if fa[i] != fb[i] {
                    self.stats.hit(&format!("fault fired in {} -> {}", OPN[i], exp.name()));
                }
            }
        }
        let (obs, buf, consumed) = match res {
            Ok((DecapStatus::Padding, n)) => (Exp::Padding(n), None, n),
            Ok((DecapStatus::CompletedPkt(b, md), n)) => {
                if md.pdu_len() > b.len() {
                    self.fail("pdu_len above the buffer length".into());
                }
                (
                    Exp::Completed {
                        buf: id_of(&b),
                        pdu: b[..md.pdu_len()].to_vec(),
                        proto: md.protocol_type(),
                        label: md.label(),
                        exts: md.extensions().clone(),
                        consumed: n,
                    },
                    Some(b),
                    n,
                )
            }
            Ok((DecapStatus::FragmentedPkt(md), n)) => (
                Exp::Fragmented {
                    proto: md.protocol_type(),
                    label: md.label(),
                    exts: md.extensions().clone(),
                    consumed: n,
                },
                None,
                n,
            ),
            Err((e, n)) => {
                let (k, b) = classify(e);
                (Exp::Err { kind: k, consumed: n, handed: b.as_ref().map(id_of) }, b, n)
            }
        };
        if obs != exp {
            let short = |e: &Exp| match e {
                Exp::Completed { buf, pdu, proto, label, consumed, .. } => {
                    format!("Completed buf={:?} pdu_len={} proto={:#x} label={:?} consumed={}", buf, pdu.len(), proto, label, consumed)
                }
                o => format!("{:?}", o),
            };
            self.fail(format!("decap mismatch\n model: {}\n sut  : {}", short(&exp), short(&obs)));
        }
        self.stats.hit(&format!("decap {}", exp.name()));
        if let Some(b) = buf {
            // the caller now owns this buffer
            self.caller.push(b);
        }
        self.check();
        (exp, consumed)
    }

    /// walk a frame like a receiver would
    fn walk_frame(&mut self, frame: &[u8], rng: &mut Rng, fault_pct: usize) {
        let mut off = 0;
        let mut n = 0;
        while off < frame.len() {
            let f = pick_faults(rng, fault_pct);
            let (_, c) = self.decap(&frame[off..], f);
            if c == 0 {
                self.fail("decap consumed nothing of a non-empty buffer".into());
            }
            off += c;
            n += 1;
        }
        if off != frame.len() {
            self.fail("frame walk ran past the frame".into());
        }
        self.stats.hit("frame walks");
        self.stats.add("frame walk decap calls", n);
    }

    /// C08 itself, checked after every single API call
    fn check(&mut self) {
        self.step += 1;
        // 1. model level partition (free / reassembly / caller) of the universe
        let mut all = self.model.held();
        all.extend(self.caller.iter().map(id_of));
        if sorted(all) != sorted(self.universe.clone()) {
            self.fail("C08 violated (model partition)".into());
        }
        // 2. ledger of the wrapper: what the memory really received and gave out, by identity
        if let Some(c) = &self.ctl {
            let held = sorted(c.held.borrow().clone());
            if held != sorted(self.model.held()) {
                let u = sorted(self.universe.clone());
                let mut real = held.clone();
                real.extend(self.caller.iter().map(id_of));
                self.fail(format!(
                    "C08 violated: buffers held by the memory differ from the model\n held={:?}\n model={:?}\n partition ok={}",
                    held,
                    sorted(self.model.held()),
                    sorted(real) == u
                ));
            }
            self.stats.hit("checks: ledger (identity) after a call");
        }
        // 3. deep inspection of the real SimpleGseMemory through a clone
        if self.snap_every > 0 && self.step % self.snap_every == 0 {
            self.snapshot();
        }
    }

    fn snapshot(&mut self) {
        let mut c = self.d.memory.simple().clone();
        let mut lens = vec![];
        while let Ok(b) = c.new_pdu() {
            lens.push(b.len());
        }
        let exp: Vec<usize> = self.model.free.iter().rev().map(|i| i.1).collect();
        if lens != exp {
            self.fail(format!("C08 violated: free list differs: sut {:?} model {:?}", lens, exp));
        }
        let mut found = 0;
        for fid in 0..=255u8 {
            if let Ok((ctx, buf)) = c.take_frag(fid) {
                found += 1;
                let idx = fid as usize % self.model.n;
                let Some(m) = &self.model.slots[idx] else {
                    self.fail(format!("reassembly {fid} unknown to the model"));
                };
                let e = DecapContext::new(m.label, m.proto, m.fid, m.total, m.data.len() as u16, m.reuse, m.exts.clone());
                if ctx != e || buf.len() != m.buf.1 || buf[..m.data.len()] != m.data[..] {
                    self.fail(format!("reassembly {fid} differs: sut {:?} model {:?}", ctx, e));
                }
            }
        }
        if found != self.model.busy() {
            self.fail(format!("C08 violated: {} reassemblies in the sut, {} in the model", found, self.model.busy()));
        }
        self.stats.hit("checks: deep snapshot of the real memory");
    }

    /// end of a history: drain the REAL memory and check the partition on real identities
    fn finish(mut self) -> Stats {
        self.snapshot();
        let mut real: Vec<Id> = vec![];
        let mut free_ids = vec![];
        {
            let mem = self.d.memory.simple_mut();
            while let Ok(b) = mem.new_pdu() {
                free_ids.push(id_of(&b));
            }
        }
        let exp: Vec<Id> = self.model.free.iter().rev().cloned().collect();
        if free_ids != exp {
            self.fail("C08 violated: identities in the free list differ at the end".into());
        }
        real.extend(free_ids);
        for fid in 0..=255u8 {
            let r = self.d.memory.simple_mut().take_frag(fid);
            if let Ok((_, buf)) = r {
                let idx = fid as usize % self.model.n;
                let m = self.model.slots[idx].as_ref().unwrap();
                if id_of(&buf) != m.buf {
                    self.fail("C08 violated: reassembly holds another buffer than expected".into());
                }
                real.push(id_of(&buf));
            }
        }
        real.extend(self.caller.iter().map(id_of));
        if sorted(real) != sorted(self.universe.clone()) {
            self.fail("C08 violated: final partition on real identities".into());
        }
        self.stats.hit("histories finished (real drain, identities)");
        self.stats.add("buffers created", self.universe.len() as u64);
        if let Some(c) = &self.ctl {
            for i in 0..5 {
                self.stats.add(&format!("trait calls {}", OPN[i]), c.total_calls.borrow()[i]);
                self.stats.add(&format!("faults injected {}", OPN[i]), c.fired.borrow()[i]);
            }
        }
        self.stats
    }
}

fn pick_faults(rng: &mut Rng, pct: usize) -> u8 {
    if pct == 0 || rng.below(100) >= pct {
        return 0;
    }
    if rng.chance(3, 4) {
        1 << rng.below(5)
    } else {
        rng.below(32) as u8
    }
}

// ---------------------------------------------------------------- packet builders
fn hdr(s: bool, e: bool, lt: u8, gse: usize) -> [u8; 2] {
    assert!(gse <= 0xfff);
    let h = ((s as u16) << 15) | ((e as u16) << 14) | ((lt as u16 & 3) << 12) | gse as u16;
    h.to_be_bytes()
}
const LL: [usize; 4] = [6, 3, 0, 0];

/// everything a start/complete packet carries in front of the PDU
#[derive(Clone, Debug)]
struct Head {
    lt: u8,
    label: Vec<u8>,
    first_pt: u16,
    ext: Vec<u8>,
    proto: u16,
}
impl Head {
    fn plain(lt: u8, label: &[u8], proto: u16) -> Head {
        Head { lt, label: label.to_vec(), first_pt: proto, ext: vec![], proto }
    }
    fn complete_overhead(&self) -> usize {
        2 + self.label.len() + self.ext.len()
    }
    fn first_overhead(&self) -> usize {
        5 + self.label.len() + self.ext.len()
    }
}
fn build_complete(h: &Head, pdu: &[u8]) -> Vec<u8> {
    let gse = h.complete_overhead() + pdu.len();
    let mut v = hdr(true, true, h.lt, gse).to_vec();
    v.extend_from_slice(&h.first_pt.to_be_bytes());
    v.extend_from_slice(&h.label);
    v.extend_from_slice(&h.ext);
    v.extend_from_slice(pdu);
    v
}
fn build_first(h: &Head, fid: u8, total: u16, frag: &[u8]) -> Vec<u8> {
    let gse = h.first_overhead() + frag.len();
    let mut v = hdr(true, false, h.lt, gse).to_vec();
    v.push(fid);
    v.extend_from_slice(&total.to_be_bytes());
    v.extend_from_slice(&h.first_pt.to_be_bytes());
    v.extend_from_slice(&h.label);
    v.extend_from_slice(&h.ext);
    v.extend_from_slice(frag);
    v
}
fn build_inter(lt: u8, fid: u8, frag: &[u8]) -> Vec<u8> {
    let mut v = hdr(false, false, lt, 1 + frag.len()).to_vec();
    v.push(fid);
    v.extend_from_slice(frag);
    v
}
fn build_end(lt: u8, fid: u8, frag: &[u8], crc: u32) -> Vec<u8> {
    let mut v = hdr(false, true, lt, 5 + frag.len()).to_vec();
    v.push(fid);
    v.extend_from_slice(frag);
    v.extend_from_slice(&crc.to_be_bytes());
    v
}

fn gen_label(rng: &mut Rng) -> (u8, Vec<u8>) {
    match rng.below(20) {
        0..=5 => {
            if rng.chance(1, 10) {
                (0, vec![0; 6]) // the forbidden label
            } else {
                let mut l = rng.bytes(6);
                l[5] |= 1;
                (0, l)
            }
        }
        6..=10 => {
            if rng.chance(1, 5) {
                (1, vec![0; 3]) // all-zero 3 byte label: legal
            } else {
                (1, rng.bytes(3))
            }
        }
        11..=14 => (2, vec![]),
        _ => (3, vec![]),
    }
}
const REAL_PROTOS: [u16; 6] = [0x0600, 0x0601, 0x0800, 0x86DD, 0xFFFF, 0x8100];
const UNKNOWN_MAND: [u16; 7] = [0x0009, 0x000F, 0x0019, 0x0080, 0x0083, 0x00FF, 0x007F];

/// returns (first_pt, ext bytes, effective protocol type)
fn gen_chain(rng: &mut Rng, allow_bad: bool, stats: &mut Stats) -> (u16, Vec<u8>, u16) {
    let k = if rng.chance(1, 2) { 0 } else { 1 + rng.below(4) };
    let mut items: Vec<(u16, Vec<u8>)> = vec![];
    for _ in 0..k {
        match rng.below(10) {
            0..=5 => {
                let hlen = 1 + rng.below(5);
                let low = rng.pick(&[0x00u16, 0x01, 0x7f, 0xff, 0x42]);
                stats.hit(&format!("gen ext optional H-LEN {}", hlen));
                items.push((((hlen as u16) << 8) | low, rng.bytes([0, 2, 4, 6, 8][hlen - 1])));
            }
            6..=8 => {
                let id = rng.below(9) as u16;
                stats.hit(&format!("gen ext mandatory non-final {} data bytes", id));
                items.push((id, rng.bytes(id as usize)));
            }
            _ => {
                if allow_bad {
                    stats.hit("gen ext mandatory unknown");
                    let n = rng.below(4);
                    items.push((rng.pick(&UNKNOWN_MAND), rng.bytes(n)));
                }
            }
        }
    }
    if rng.chance(1, 4) {
        let id = if rng.chance(1, 4) { rng.pick(&[0x81u16, 0x82]) } else { 0x10 + rng.below(9) as u16 };
        let n = if id >= 0x81 { 0 } else { (id - 0x10) as usize };
        stats.hit(&format!("gen ext mandatory final {} data bytes", n));
        items.push((id, rng.bytes(n)));
    } else {
        let p = if rng.chance(1, 3) { 0x600 + rng.below(0xFA00) as u16 } else { rng.pick(&REAL_PROTOS) };
        items.push((p, vec![]));
    }
    let first = items[0].0;
    let mut bytes = items[0].1.clone();
    for it in &items[1..] {
        bytes.extend_from_slice(&it.0.to_be_bytes());
        bytes.extend_from_slice(&it.1);
    }
    (first, bytes, items.last().unwrap().0)
}
fn gen_head(rng: &mut Rng, allow_bad: bool, stats: &mut Stats) -> Head {
    let (lt, label) = gen_label(rng);
    let (first_pt, ext, proto) = gen_chain(rng, allow_bad, stats);
    stats.hit(&format!("gen label type {}", ["6B", "3B", "broadcast", "re-use"][lt as usize]));
    Head { lt, label, first_pt, ext, proto }
}

// ---------------------------------------------------------------- sender side of fragmented PDUs
struct Sender {
    fid: u8,
    pdu: Vec<u8>,
    sent: usize,
    crc: u32,
}
fn crc_for(h: &Head, pdu: &[u8]) -> (u16, u32) {
    let total = (pdu.len() + 2 + h.label.len()) as u16;
    (total, DefaultCrc {}.calculate_crc32(pdu, h.proto, total, &h.label))
}

#[derive(Clone, Copy, Debug)]
struct Cfg {
    n: usize,
    max_pdu: usize,
    /// storage = max_pdu + extra (+ index when distinct)
    extra: usize,
    distinct: bool,
    initial: usize,
    steps: usize,
    big: bool,
    fault_pct: usize,
    save_mode: u8,
    snap_every: usize,
}

struct Gen {
    rng: Rng,
    cfg: Cfg,
    senders: Vec<Sender>,
    created: usize,
}
impl Gen {
    fn storage_size(&mut self) -> usize {
        self.created += 1;
        let base = self.cfg.max_pdu + self.cfg.extra + if self.cfg.distinct { self.created } else { 0 };
        match self.rng.below(20) {
            0 if self.cfg.max_pdu > 0 => self.cfg.max_pdu - 1, // refused: too small
            1 if self.cfg.max_pdu > 0 => self.rng.below(self.cfg.max_pdu),
            2 => self.cfg.max_pdu, // exactly the minimum
            _ => base,
        }
    }
    fn pdu_len(&mut self, ll: usize) -> usize {
        let s = self.cfg.max_pdu;
        let r = self.rng.below(100);
        let l = match r {
            0..=24 => self.rng.below(40),
            25..=44 => s.saturating_sub(2) + self.rng.below(5),
            45..=54 => (s + self.cfg.extra).saturating_sub(2) + self.rng.below(5),
            55..=66 => 4080 + self.rng.below(20),
            67..=76 => self.rng.below(9000),
            77..=82 if self.cfg.big => 65520 + self.rng.below(14),
            _ => self.rng.below(300),
        };
        l.min(65533 - ll)
    }
    fn fid(&mut self, model: &Model) -> u8 {
        let n = self.cfg.n;
        let active: Vec<u8> = model.slots.iter().flatten().map(|c| c.fid).collect();
        let v = match self.rng.below(10) {
            0..=3 => self.rng.below(n.min(256) + 2),
            4..=5 if !active.is_empty() => self.rng.pick(&active) as usize, // restart of a pending id
            6..=7 if !active.is_empty() => self.rng.pick(&active) as usize + n, // aliasing id
            8 => 255,
            _ => self.rng.below(256),
        };
        (v % 256) as u8
    }

    fn start(&mut self, model: &Model, stats: &mut Stats, allow_bad: bool) -> Vec<u8> {
        let h = gen_head(&mut self.rng, allow_bad, stats);
        let len = self.pdu_len(h.label.len());
        let pdu = self.rng.bytes(len);
        let fid = self.fid(model);
        let (total, crc) = crc_for(&h, &pdu);
        let room = 4095 - h.first_overhead();
        let k = match self.rng.below(6) {
            0 => 0,
            1 => 1,
            2 => self.rng.below(64),
            3 => room,
            4 => room.saturating_sub(self.rng.below(3)),
            _ => self.rng.below(room + 1),
        }
        .min(room)
        .min(pdu.len());
        stats.hit("gen first fragment");
        let pkt = build_first(&h, fid, total, &pdu[..k]);
        self.senders.retain(|s| s.fid != fid);
        self.senders.push(Sender { fid, pdu, sent: k, crc });
        if self.senders.len() > 12 {
            self.senders.remove(0);
        }
        pkt
    }
    fn lt_frag(&mut self) -> u8 {
        // encapsulators write 0b11; the other values must be accepted all the same
        if self.rng.chance(3, 4) {
            3
        } else {
            1 + self.rng.below(3) as u8
        }
    }
    fn cont(&mut self, model: &Model, stats: &mut Stats) -> Vec<u8> {
        if self.senders.is_empty() {
            return self.start(model, stats, false);
        }
        let i = self.rng.below(self.senders.len());
        let lt = self.lt_frag();
        let rem = self.senders[i].pdu.len() - self.senders[i].sent;
        let corrupt = self.rng.below(100);
        let mut s = self.senders.remove(i);
        let finish = rem <= 4090 && (rem == 0 || self.rng.chance(1, 2));
        if finish {
            let mut frag = s.pdu[s.sent..].to_vec();
            let mut crc = s.crc;
            let fid = s.fid;
            match corrupt {
                0..=7 => {
                    stats.hit("gen end fragment, CRC mismatch");
                    crc ^= 1 << self.rng.below(32);
                }
                8..=11 if frag.len() < 4090 => {
                    stats.hit("gen end fragment, one byte too many (length mismatch)");
                    frag.push(0);
                }
                12..=15 if !frag.is_empty() => {
                    stats.hit("gen end fragment, one byte short (length mismatch)");
                    frag.pop();
                }
                _ => stats.hit("gen end fragment, valid"),
            }
            build_end(lt, fid, &frag, crc)
        } else {
            let k = match self.rng.below(6) {
                0 => 1,
                1 => 4094,
                2 => 1 + self.rng.below(64),
                3 => rem,
                _ => 1 + self.rng.below(4094),
            }
            .min(4094)
            .min(rem.max(1));
            let fid = s.fid;
            let mut frag = if rem == 0 { vec![0] } else { s.pdu[s.sent..s.sent + k].to_vec() };
            s.sent = (s.sent + k).min(s.pdu.len());
            self.senders.push(s);
            match corrupt {
                0..=5 => {
                    // fragment larger than what is left in the storage
                    let idx = fid as usize % model.n;
                    if let Some(c) = &model.slots[idx] {
                        let left = c.buf.1 - c.data.len();
                        if left + 1 <= 4094 {
                            stats.hit("gen intermediate fragment, oversize for the storage");
                            frag = self.rng.bytes(left + 1);
                        }
                    }
                }
                _ => stats.hit("gen intermediate fragment"),
            }
            build_inter(lt, fid, &frag)
        }
    }
    fn complete(&mut self, stats: &mut Stats, allow_bad: bool) -> Vec<u8> {
        let h = gen_head(&mut self.rng, allow_bad, stats);
        let room = 4095 - h.complete_overhead();
        let len = self.pdu_len(h.label.len());
        let len = if len > room {
            if self.rng.chance(1, 2) {
                room
            } else {
                room - self.rng.below(4)
            }
        } else {
            len
        };
        stats.hit("gen complete packet");
        let pdu = self.rng.bytes(len);
        build_complete(&h, &pdu)
    }
    fn raw_ptype(&mut self, stats: &mut Stats) -> Vec<u8> {
        // protocol type field around the 0x0100 / 0x0600 borders, followed by arbitrary bytes
        let pt = self.rng.pick(&[0x0000u16, 0x00FF, 0x0100, 0x0101, 0x01FF, 0x0200, 0x02FF, 0x0300, 0x0400, 0x0500, 0x05FF, 0x0600, 0x0601]);
        let (lt, label) = gen_label(&mut self.rng);
        let n = self.rng.below(24);
        let body = self.rng.bytes(n);
        stats.hit(&format!("gen raw protocol type {:#06x}", pt));
        let h = Head { lt, label, first_pt: pt, ext: vec![], proto: pt };
        if self.rng.chance(1, 2) {
            build_complete(&h, &body)
        } else {
            let fid = self.rng.below(self.cfg.n + 1) as u8;
            let t = self.rng.below(100) as u16;
            build_first(&h, fid, t, &body)
        }
    }
    fn malformed(&mut self, model: &Model, stats: &mut Stats) -> Vec<u8> {
        match self.rng.below(9) {
            0 => {
                stats.hit("gen buffer of 0..2 bytes");
                let n = self.rng.below(3);
                let mut v = self.rng.bytes(n);
                if n > 0 {
                    v[0] |= 0x80;
                }
                v
            }
            1 => {
                stats.hit("gen random bytes");
                let n = self.rng.below(40);
                self.rng.bytes(n)
            }
            2 => {
                stats.hit("gen GSE length too short for the header fields");
                let s = self.rng.chance(1, 2);
                let e = self.rng.chance(1, 2);
                let lt = self.rng.below(4) as u8;
                let gse = self.rng.below(12);
                let mut v = hdr(s, e, lt, gse).to_vec();
                v.extend(self.rng.bytes(gse));
                if !s && !e && lt == 0 {
                    v[0] |= 0x10;
                }
                v
            }
            3 => {
                stats.hit("gen truncated packet (buffer shorter than GSE length)");
                let mut v = self.complete(stats, false);
                let cut = 1 + self.rng.below(v.len().max(2) - 1);
                v.truncate(cut);
                v
            }
            4 => {
                stats.hit("gen fragment with unknown frag id");
                let mut fid = self.rng.below(256) as u8;
                for _ in 0..8 {
                    if model.slots[fid as usize % model.n].as_ref().map(|c| c.fid) != Some(fid) {
                        break;
                    }
                    fid = fid.wrapping_add(1);
                }
                let n = 1 + self.rng.below(20);
                let d = self.rng.bytes(n);
                if self.rng.chance(1, 2) {
                    build_inter(3, fid, &d)
                } else {
                    build_end(3, fid, &d, 0)
                }
            }
            5 => {
                stats.hit("gen fragment with aliasing frag id");
                let active: Vec<u8> = model.slots.iter().flatten().map(|c| c.fid).collect();
                let fid = if active.is_empty() { 0 } else { self.rng.pick(&active) };
                let fid = ((fid as usize + model.n * (1 + self.rng.below(3))) % 256) as u8;
                let n = 1 + self.rng.below(20);
                let d = self.rng.bytes(n);
                if self.rng.chance(1, 2) {
                    build_inter(3, fid, &d)
                } else {
                    build_end(3, fid, &d, 0)
                }
            }
            6 => {
                stats.hit("gen padding");
                vec![0; 1 + self.rng.below(30)]
            }
            7 => {
                stats.hit("gen first fragment with total length <= fragment length");
                let (lt, label) = gen_label(&mut self.rng);
                let h = Head::plain(lt, &label, 0x0800);
                let n = self.rng.below(30);
                let d = self.rng.bytes(n);
                let fid = self.fid(model);
                build_first(&h, fid, self.rng.below(n + 1) as u16, &d)
            }
            _ => {
                stats.hit("gen truncated extension chain");
                let mut h = gen_head(&mut self.rng, false, stats);
                while h.ext.is_empty() {
                    h = gen_head(&mut self.rng, false, stats);
                }
                let cut = self.rng.below(h.ext.len());
                h.ext.truncate(cut);
                if self.rng.chance(1, 2) {
                    build_complete(&h, &[])
                } else {
                    let fid = self.fid(model);
                    build_first(&h, fid, 100, &[])
                }
            }
        }
    }
    fn packet(&mut self, model: &Model, stats: &mut Stats) -> Vec<u8> {
        match self.rng.below(100) {
            0..=17 => self.complete(stats, true),
            18..=33 => self.start(model, stats, true),
            34..=69 => self.cont(model, stats),
            70..=77 => self.raw_ptype(stats),
            _ => self.malformed(model, stats),
        }
    }
}

fn random_history<M: Mem>(cfg: Cfg, seed: u64) -> Stats {
    let mut w: World<M> = World::new(cfg.n, cfg.max_pdu, cfg.snap_every);
    if let Some(c) = &w.ctl {
        c.save_mode.set(cfg.save_mode);
    }
    let mut g = Gen { rng: Rng(seed), cfg, senders: vec![], created: 0 };
    let mut st = Stats::default();
    for _ in 0..cfg.initial {
        let s = g.storage_size();
        w.provision_new(s);
    }
    for _ in 0..cfg.steps {
        match g.rng.below(100) {
            0..=4 => {
                let s = g.storage_size();
                w.provision_new(s);
            }
            5..=12 => {
                let i = g.rng.below(1000);
                w.provision_back(i);
            }
            13..=15 => w.reset(),
            16 => {
                if g.rng.chance(1, 2) {
                    w.caller_takes()
                } else {
                    w.restart()
                }
            }
            17..=26 => {
                let k = 2 + g.rng.below(5);
                let mut frame = vec![];
                for _ in 0..k {
                    frame.extend(g.packet(&w.model, &mut st));
                }
                if g.rng.chance(2, 3) {
                    frame.extend(vec![0u8; g.rng.below(20)]);
                }
                w.walk_frame(&frame, &mut g.rng, cfg.fault_pct);
            }
            _ => {
                let mut p = g.packet(&w.model, &mut st);
                if g.rng.chance(1, 4) {
                    let n = g.rng.below(10);
                    if g.rng.chance(1, 2) {
                        p.extend(vec![0u8; n]);
                    } else {
                        p.extend(g.rng.bytes(n));
                    }
                }
                let f = pick_faults(&mut g.rng, cfg.fault_pct);
                w.decap(&p, f);
            }
        }
        // a caller that usually recycles what it was handed
        if g.rng.chance(3, 5) {
            let i = g.rng.below(1000);
            w.provision_back(i);
        }
    }
    let mut s = w.finish();
    s.merge(&st);
    s
}

// ---------------------------------------------------------------- directed helpers
/// send one PDU (complete packet if it fits in one fragment budget, else fragments of at most `frag`
/// payload bytes); stops at the first error.  Returns every outcome.
fn send_pdu<M: Mem>(w: &mut World<M>, h: &Head, fid: u8, pdu: &[u8], frag: usize) -> Vec<Exp> {
    let mut out = vec![];
    if h.complete_overhead() + pdu.len() <= 4095 && frag >= pdu.len() {
        out.push(w.decap(&build_complete(h, pdu), 0).0);
        return out;
    }
    let (total, crc) = crc_for(h, pdu);
    let k = frag.min(4095 - h.first_overhead()).min(pdu.len());
    let r = w.decap(&build_first(h, fid, total, &pdu[..k]), 0).0;
    let bad = matches!(r, Exp::Err { .. });
    out.push(r);
    if bad {
        return out;
    }
    let mut sent = k;
    while pdu.len() - sent > frag.min(4090) {
        let k = frag.min(4094).max(1);
        let r = w.decap(&build_inter(3, fid, &pdu[sent..sent + k]), 0).0;
        sent += k;
        let bad = matches!(r, Exp::Err { .. });
        out.push(r);
        if bad {
            return out;
        }
    }
    out.push(w.decap(&build_end(3, fid, &pdu[sent..], crc), 0).0);
    out
}

fn heads_all_labels() -> Vec<(&'static str, Head)> {
    vec![
        ("6B", Head::plain(0, &[1, 2, 3, 4, 5, 6], 0x0800)),
        ("3B", Head::plain(1, &[7, 8, 9], 0x86DD)),
        ("3B zero", Head::plain(1, &[0, 0, 0], 0x0600)),
        ("broadcast", Head::plain(2, &[], 0xFFFF)),
        ("re-use", Head::plain(3, &[], 0x0601)),
        (
            "6B + extensions",
            // optional H-LEN 2 (2 bytes), non final mandatory 0x03 (3 bytes), then 0x0800
            Head { lt: 0, label: vec![9, 9, 9, 9, 9, 9], first_pt: 0x0242, ext: vec![0xAA, 0xBB, 0x00, 0x03, 1, 2, 3, 0x08, 0x00], proto: 0x0800 },
        ),
        (
            "broadcast + final mandatory",
            Head { lt: 2, label: vec![], first_pt: 0x0100, ext: vec![0x00, 0x14, 1, 2, 3, 4], proto: 0x0014 },
        ),
    ]
}

/// make the receiver remember a label (needed in front of a re-use packet); recycles the buffer
fn remember_label<M: Mem>(w: &mut World<M>) {
    let h = Head::plain(0, &[0xC0, 1, 2, 3, 4, 5], 0x0800);
    let r = w.decap(&build_complete(&h, &[]), 0).0;
    if matches!(r, Exp::Completed { .. }) {
        let i = w.caller.len() - 1;
        w.provision_back(i);
    }
}
fn recycle_all<M: Mem>(w: &mut World<M>) {
    let mut guard = w.caller.len();
    while guard > 0 && !w.caller.is_empty() {
        guard -= 1;
        let keep = w.caller.len();
        w.provision_back(0);
        if w.caller.len() == keep {
            // refused and moved to the back; try the others once
            continue;
        }
    }
}

// ---------------------------------------------------------------- T1: sizes
fn directed_sizes<M: Mem>(st: &mut Stats) {
    let storages = [0usize, 1, 2, 100, 4093, 4094, 4095, 4096, 4097, 5000, 65533, 65534, 65535, 65536, 70000];
    for &n in &[1usize, 256] {
        for &s in &storages {
            let mut lens: Vec<usize> = vec![0, 1, 2, s.saturating_sub(1), s, s + 1, 4075, 4084, 4087, 4089, 4090, 4091, 4093, 4094, 4095, 4096, 4097, 65524, 65527, 65530, 65533];
            lens.sort();
            lens.dedup();
            for (name, h) in heads_all_labels() {
                for &l in &lens {
                    if l + 2 + h.label.len() > 65535 {
                        continue;
                    }
                    for &frag in &[usize::MAX, 7usize] {
                        if frag == 7 && l > 300 {
                            continue;
                        }
                        let mut w: World<M> = World::new(n, s, 1);
                        if s > 10000 {
                            w.snap_every = 8;
                        }
                        assert!(w.provision_new(s));
                        if h.lt == 3 {
                            remember_label(&mut w);
                        }
                        let free0 = w.model.free.len();
                        let pdu: Vec<u8> = (0..l).map(|i| (i * 7 + 3) as u8).collect();
                        let r = send_pdu(&mut w, &h, 200, &pdu, frag);
                        match r.last().unwrap() {
                            Exp::Completed { pdu: p, buf, .. } => {
                                assert!(l <= s, "{name}: PDU of {l} bytes accepted in {s} bytes");
                                assert_eq!(p, &pdu);
                                assert_eq!(buf.1, s);
                                assert_eq!(w.caller.len(), 1);
                                assert_eq!(w.model.free.len(), free0 - 1);
                                st.hit("T1 PDU delivered (buffer now owned by the caller)");
                            }
                            Exp::Err { kind, handed, .. } => {
                                assert!(l > s, "{name}: PDU of {l} bytes refused in {s} bytes: {:?}", kind);
                                assert_eq!(*kind, EK::SizePduBuffer);
                                assert!(handed.is_none());
                                assert_eq!(w.model.free.len(), free0, "buffer not returned");
                                assert_eq!(w.model.busy(), 0);
                                st.hit("T1 PDU too large for the storage: refused, buffer back in the free list");
                            }
                            o => panic!("unexpected {:?}", o),
                        }
                        // the receiver still works: a PDU that fits goes through
                        recycle_all(&mut w);
                        let small: Vec<u8> = vec![0x5A; s.min(9)];
                        let r = send_pdu(&mut w, &Head::plain(2, &[], 0x0800), 1, &small, usize::MAX);
                        assert!(matches!(r.last().unwrap(), Exp::Completed { .. }));
                        st.merge(&w.finish());
                        st.hit("T1 cases");
                    }
                }
            }
        }
    }
}

// ---------------------------------------------------------------- T2: rejected traffic can not exhaust the receiver
/// rejection kinds; each returns the packets of one rejected attempt
fn rejected(kind: usize, fid: u8, n: usize, s: usize) -> Option<(&'static str, Vec<Vec<u8>>, bool)> {
    // (name, packets, needs reset of the label before)
    let six = Head::plain(0, &[1, 1, 1, 1, 1, 1], 0x0800);
    let zero = Head::plain(0, &[0; 6], 0x0800);
    let reuse = Head::plain(3, &[], 0x0800);
    let unk = Head { lt: 1, label: vec![1, 2, 3], first_pt: 0x00FF, ext: vec![0x08, 0x00], proto: 0x0800 };
    let unk2 = Head { lt: 2, label: vec![], first_pt: 0x0301, ext: vec![1, 2, 3, 4, 0x00, 0x09, 0x08, 0x00], proto: 0x0800 };
    let trunc = Head { lt: 2, label: vec![], first_pt: 0x0501, ext: vec![1, 2, 3], proto: 0 };
    // every storage of T2 is at most s + 10 + n + 2 bytes long
    let ol = s + 13 + n;
    let over = vec![0x33u8; ol];
    let fits = ol + 2 + 6 <= 4095;
    let fits_first = ol + 5 + 6 <= 4095;
    let body = vec![0x44u8; s.min(20)];
    let (total, crc) = crc_for(&six, &body);
    let half = body.len() / 2;
    let first_ok = build_first(&six, fid, total, &body[..half]);
    // an id of the same slot that is neither `fid` nor the pending aliasing id `n`
    let alias = ((fid as usize + 2 * n) % 256) as u8;
    let can_alias = n < 128;
    let unknown = 77u8;
    Some(match kind {
        0 => ("complete, zero 6B label", vec![build_complete(&zero, &[1, 2])], false),
        1 => ("complete, re-use without remembered label", vec![build_complete(&reuse, &[1, 2])], true),
        2 => ("complete, unknown mandatory extension (first)", vec![build_complete(&unk, &[1])], false),
        3 => ("complete, unknown mandatory extension (after an optional one)", vec![build_complete(&unk2, &[1])], false),
        4 if fits => ("complete, larger than the storage", vec![build_complete(&six, &over)], false),
        5 => ("complete, truncated extension chain", vec![build_complete(&trunc, &[])], false),
        6 => ("complete, GSE length too short", vec![{ let mut v = hdr(true, true, 0, 5).to_vec(); v.extend([0x08, 0, 1, 2, 3]); v }], false),
        7 => ("first, zero 6B label", vec![build_first(&zero, fid, 50, &[1, 2])], false),
        8 => ("first, re-use without remembered label", vec![build_first(&reuse, fid, 50, &[1, 2])], true),
        9 => ("first, unknown mandatory extension", vec![build_first(&unk, fid, 50, &[1])], false),
        10 => ("first, truncated extension chain", vec![build_first(&trunc, fid, 50, &[])], false),
        11 => ("first, total length <= fragment", vec![build_first(&six, fid, 3, &[1, 2, 3])], false),
        12 if fits_first => ("first, larger than the storage", vec![build_first(&six, fid, 60000, &over)], false),
        13 => ("first, GSE length too short", vec![{ let mut v = hdr(true, false, 0, 8).to_vec(); v.extend([fid, 0, 9, 8, 0, 1, 2, 3]); v }], false),
        14 => ("intermediate, unknown frag id", vec![build_inter(3, unknown, &[1, 2, 3])], false),
        15 => ("end, unknown frag id", vec![build_end(3, unknown, &[1, 2, 3], 0)], false),
        16 if can_alias => ("intermediate, aliasing frag id", vec![build_inter(3, alias, &[1, 2, 3])], false),
        17 if can_alias => ("end, aliasing frag id", vec![build_end(3, alias, &[1, 2, 3], 0)], false),
        18 if ol <= 4094 => ("first ok, then intermediate larger than the storage", vec![first_ok, build_inter(3, fid, &over)], false),
        19 => ("first ok, then end with CRC mismatch", vec![first_ok, build_end(3, fid, &body[half..], crc ^ 0x8000)], false),
        20 if s > body.len() => ("first ok, then end with one byte too many", vec![first_ok, build_end(3, fid, &[&body[half..], &[0u8][..]].concat(), crc)], false),
        21 if ol <= 4090 => ("first ok, then end larger than the storage", vec![first_ok, build_end(3, fid, &over, crc)], false),
        22 => ("buffer shorter than the GSE length", vec![{ let mut v = build_complete(&six, &[1, 2, 3, 4]); v.pop(); v }], false),
        23 => ("buffer of one byte", vec![vec![0xC0]], false),
        24 => ("intermediate with GSE length 1", vec![{ let mut v = hdr(false, false, 3, 1).to_vec(); v.push(fid); v }], false),
        25 => ("end with GSE length 4", vec![{ let mut v = hdr(false, true, 3, 4).to_vec(); v.extend([fid, 0, 0, 0]); v }], false),
        26 if can_alias => ("first, aliasing frag id, zero label", vec![build_first(&zero, alias, 50, &[1, 2])], false),
        27 if fits_first && can_alias => ("first, aliasing frag id, larger than the storage", vec![build_first(&six, alias, 60000, &over)], false),
        0..=27 => return Some(("(not applicable for this storage size)", vec![], false)),
        _ => return None,
    })
}

fn directed_exhaustion<M: Mem>(st: &mut Stats) {
    for &n in &[1usize, 2, 4, 256] {
        for &s in &[0usize, 1, 16, 1000, 4096] {
            for free_state in 0..3 {
                for pending in 0..3 {
                    let mut kind = 0;
                    while let Some((name, pkts, needs_reset)) = rejected(kind, 0, n, s) {
                        kind += 1;
                        if pkts.is_empty() {
                            continue;
                        }
                        let mut w: World<M> = World::new(n, s, 1);
                        // pending reassembly: none / same frag id / aliasing frag id
                        if pending > 0 {
                            assert!(w.provision_new(s + 3));
                            let fid = if pending == 1 { 0 } else { (n % 256) as u8 };
                            let h = Head::plain(1, &[5, 5, 5], 0x0800);
                            let r = w.decap(&build_first(&h, fid, 40, &vec![1u8; s.min(3)]), 0).0;
                            assert!(matches!(r, Exp::Fragmented { .. }), "{:?}", r);
                        }
                        // free list: empty / one / exactly full
                        let want = [0, 1, n + 2][free_state];
                        for i in 0..want {
                            assert!(w.provision_new(s + 10 + i));
                        }
                        if free_state == 2 {
                            assert!(!w.provision_new(s)); // overflow: the caller keeps it
                        }
                        let pool0 = w.model.free.len() + w.caller.len();
                        let total0 = w.universe.len();
                        for _ in 0..3 * (n.min(8) + 3) {
                            if needs_reset {
                                w.reset();
                            }
                            let mut rejected_seen = false;
                            for p in &pkts {
                                let r = w.decap(p, 0).0;
                                if matches!(r, Exp::Err { .. }) {
                                    rejected_seen = true;
                                }
                            }
                            assert!(rejected_seen, "{name}: traffic was not rejected");
                            // rejected traffic never shrinks the pool of usable buffers
                            assert!(
                                w.model.free.len() + w.caller.len() >= pool0,
                                "{name}: pool shrank from {pool0} to {}",
                                w.model.free.len() + w.caller.len()
                            );
                            assert_eq!(w.universe.len(), total0);
                        }
                        st.hit(&format!("T2 rejected: {name}"));
                        // error path followed by valid traffic
                        recycle_all(&mut w);
                        if !w.model.free.is_empty() {
                            let pdu = vec![0x77u8; s.min(30)];
                            let r = send_pdu(&mut w, &Head::plain(0, &[3, 3, 3, 3, 3, 3], 0x0800), 7, &pdu, usize::MAX);
                            assert!(matches!(r.last().unwrap(), Exp::Completed { .. }), "{name}: valid complete PDU refused afterwards: {:?}", r);
                            recycle_all(&mut w);
                            if s >= 2 {
                                let r = send_pdu(&mut w, &Head::plain(1, &[0, 0, 0], 0x0800), 0, &pdu, 1.max(pdu.len() / 3));
                                assert!(matches!(r.last().unwrap(), Exp::Completed { .. }), "{name}: valid fragmented PDU refused afterwards: {:?}", r);
                            }
                            st.hit("T2 valid traffic accepted after the rejected traffic");
                        }
                        st.merge(&w.finish());
                        st.hit("T2 cases");
                    }
                }
            }
        }
    }
}

// ---------------------------------------------------------------- T3: every failure point of the memory
fn directed_fault_points(st: &mut Stats) {
    let n = 2usize;
    let s = 32usize;
    let six = Head::plain(0, &[1, 1, 1, 1, 1, 1], 0x0800);
    let zero = Head::plain(0, &[0; 6], 0x0800);
    let unk = Head { lt: 1, label: vec![1, 2, 3], first_pt: 0x00FF, ext: vec![0x08, 0x00], proto: 0x0800 };
    let trunc = Head { lt: 2, label: vec![], first_pt: 0x0501, ext: vec![1, 2, 3], proto: 0 };
    let reuse = Head::plain(3, &[], 0x0800);
    let body = vec![0x44u8; 20];
    let (total, crc) = crc_for(&six, &body);
    let over = vec![9u8; s + 20]; // every storage of T3 is at most s + 10 + n + 2 bytes long
    // (name, needs an accepted first fragment of `body[..10]` on frag id 0, packet)
    let scen: Vec<(&str, bool, Vec<u8>)> = vec![
        ("complete valid", false, build_complete(&six, &body)),
        ("complete oversize", false, build_complete(&six, &over)),
        ("first valid", false, build_first(&six, 0, total, &body[..10])),
        ("first oversize", false, build_first(&six, 0, 9999, &over)),
        ("first zero label", false, build_first(&zero, 0, 50, &[1])),
        ("first unknown mandatory", false, build_first(&unk, 0, 50, &[1])),
        ("first truncated chain", false, build_first(&trunc, 0, 50, &[])),
        ("first re-use without label", false, build_first(&reuse, 0, 50, &[1])),
        ("first total length too small", false, build_first(&six, 0, 2, &[1, 2, 3])),
        ("intermediate valid", true, build_inter(3, 0, &body[10..15])),
        ("intermediate oversize", true, build_inter(3, 0, &over)),
        ("end valid", true, build_end(3, 0, &body[10..], crc)),
        ("end CRC mismatch", true, build_end(3, 0, &body[10..], !crc)),
        ("end length mismatch", true, build_end(3, 0, &body[10..19], crc)),
        ("end oversize", true, build_end(3, 0, &over, crc)),
        ("intermediate unknown id", false, build_inter(3, 1, &[1])),
    ];
    for (name, need_first, pkt) in &scen {
        for pending in 0..3 {
            // pending: 0 none, 1 same frag id (0), 2 aliasing frag id (2)
            if *need_first && pending != 1 {
                continue;
            }
            for free_state in 0..3 {
                for faults in 0u8..32 {
                    for mode in 0u8..2 {
                        let mut w: World<Faulty> = World::new(n, s, 1);
                        w.ctl.as_ref().unwrap().save_mode.set(mode);
                        if pending > 0 {
                            assert!(w.provision_new(s + 3));
                            let fid = if pending == 1 { 0 } else { 2 };
                            let r = w.decap(&build_first(&six, fid, total, &body[..10]), 0).0;
                            assert!(matches!(r, Exp::Fragmented { .. }));
                        }
                        let want = [0, 1, n + 2][free_state];
                        for i in 0..want {
                            assert!(w.provision_new(s + 10 + i));
                        }
                        let pool0 = w.model.free.len() + w.caller.len() + w.model.busy();
                        if name.contains("re-use") {
                            w.reset();
                        }
                        let r = w.decap(pkt, faults).0;
                        // whatever failed, no buffer left the three legal places
                        assert_eq!(w.model.free.len() + w.caller.len() + w.model.busy(), pool0);
                        st.hit(&format!("T3 {name} -> {}", r.name()));
                        // followed by fault-free valid traffic
                        recycle_all(&mut w);
                        if !w.model.free.is_empty() {
                            let r = send_pdu(&mut w, &Head::plain(2, &[], 0x0800), 1, &body, usize::MAX);
                            assert!(matches!(r.last().unwrap(), Exp::Completed { .. }));
                            recycle_all(&mut w);
                            let r = send_pdu(&mut w, &six, 1, &body, 6);
                            assert!(matches!(r.last().unwrap(), Exp::Completed { .. }), "{:?}", r);
                        }
                        st.merge(&w.finish());
                        st.hit("T3 cases");
                    }
                }
            }
        }
    }
}

// ---------------------------------------------------------------- T4: reassemblies reaching the 16 bit limits
fn directed_16bit<M: Mem>(st: &mut Stats) {
    for &s in &[65535usize, 65536, 70000, 140000] {
        for (name, h) in heads_all_labels() {
            for &total in &[65535u16, 65534, 4100, 1] {
                let mut w: World<M> = World::new(3, s, 4);
                assert!(w.provision_new(s));
                assert!(w.provision_new(s + 1));
                if h.lt == 3 {
                    remember_label(&mut w);
                }
                let free0 = w.model.free.len();
                let r = w.decap(&build_first(&h, 5, total, &[]), 0).0;
                assert!(matches!(r, Exp::Fragmented { .. }), "{name} {:?}", r);
                // keep sending maximal intermediate fragments until the receiver gives up
                let chunk = vec![0xEEu8; 4094];
                let mut last = None;
                for _ in 0..40 {
                    let r = w.decap(&build_inter(3, 5, &chunk), 0).0;
                    if let Exp::Err { kind, handed, .. } = &r {
                        assert!(handed.is_none());
                        last = Some(*kind);
                        break;
                    }
                }
                let k = last.expect("an endless reassembly was accepted");
                assert!(k == EK::TotalLength || k == EK::SizePduBuffer, "{:?}", k);
                assert_eq!(w.model.free.len(), free0, "buffer not returned");
                assert_eq!(w.model.busy(), 0);
                st.hit(&format!("T4 endless reassembly stopped by {:?}", k));
                // the longest legal PDU still goes through afterwards
                let l = (65535 - 2 - h.label.len()).min(s);
                let pdu: Vec<u8> = (0..l).map(|i| (i ^ (i >> 8)) as u8).collect();
                let r = send_pdu(&mut w, &h, 5, &pdu, usize::MAX);
                assert!(matches!(r.last().unwrap(), Exp::Completed { .. }), "{name}: {:?}", r.last());
                st.merge(&w.finish());
                st.hit("T4 cases");
            }
        }
    }
}

// ---------------------------------------------------------------- T6: traffic produced by the crate's own encapsulator
fn encap_traffic<M: Mem>(seed: u64, st: &mut Stats) {
    let mut rng = Rng(seed);
    let n = 1 + rng.below(5);
    let s = rng.pick(&[10usize, 100, 4096, 9000, 65535]);
    let mut w: World<M> = World::new(n, s, 3);
    for i in 0..n + 2 {
        assert!(w.provision_new(s + i));
    }
    let mut enc = Encapsulator::new(DefaultCrc {});
    for _ in 0..40 {
        let label = match rng.below(5) {
            0 => Label::Broadcast,
            1 => Label::ThreeBytesLabel([0, 0, 0]),
            2 => Label::ThreeBytesLabel([1, 2, 3]),
            3 => Label::SixBytesLabel([1, 2, 3, 4, 5, 6]),
            _ => Label::SixBytesLabel([6, 5, 4, 3, 2, 1]),
        };
        let len = match rng.below(6) {
            0 => rng.below(4),
            1 => s.saturating_sub(1) + rng.below(3),
            2 => 4085 + rng.below(12),
            3 if s >= 65535 => 65520 + rng.below(10),
            _ => rng.below(600),
        }
        .min(65535 - 2 - label.len());
        let pdu = rng.bytes(len);
        let fid = rng.below(n + 3) as u8;
        let md = EncapMetadata::new(rng.pick(&[0x0600u16, 0x0800, 0xFFFF]), label);
        let mut frame = vec![0u8; rng.pick(&[12usize, 40, 300, 4097, 5000])];
        let exts = match rng.below(3) {
            0 => vec![],
            1 => vec![Extension::new(0x0301, &[1, 2, 3, 4]).unwrap()],
            _ => vec![Extension::new(0x0004, &[1, 2, 3, 4]).unwrap(), Extension::new(0x0100, &[]).unwrap()],
        };
        let r = if exts.is_empty() { enc.encap(&pdu, fid, md, &mut frame) } else { enc.encap_ext(&pdu, fid, md, &mut frame, exts) };
        let mut ctx = match r {
            Ok(EncapStatus::CompletedPkt(l)) => {
                w.decap(&frame[..l as usize], 0);
                st.hit("T6 encapsulated complete packet");
                None
            }
            Ok(EncapStatus::FragmentedPkt(l, c)) => {
                w.decap(&frame[..l as usize], 0);
                st.hit("T6 encapsulated first fragment");
                Some(c)
            }
            Err(_) => None,
        };
        while let Some(c) = ctx.take() {
            let mut frame = vec![0u8; rng.pick(&[8usize, 40, 300, 4097, 5000])];
            match enc.encap_frag(&pdu, &c, &mut frame) {
                Ok(EncapStatus::CompletedPkt(l)) => {
                    w.decap(&frame[..l as usize], 0);
                    st.hit("T6 encapsulated end fragment");
                }
                Ok(EncapStatus::FragmentedPkt(l, c2)) => {
                    w.decap(&frame[..l as usize], 0);
                    ctx = Some(c2);
                }
                Err(_) => {}
            }
        }
        if rng.chance(1, 6) {
            w.reset();
            enc.reset_last_label();
        }
        recycle_all(&mut w);
    }
    st.merge(&w.finish());
}

// ---------------------------------------------------------------- tests
fn cfgs(seed_mix: u64) -> Vec<Cfg> {
    let mut v = vec![];
    let mut rng = Rng(seed_mix);
    let ns = [1usize, 2, 3, 5, 16, 64, 255, 256, 300];
    let sizes = [0usize, 1, 7, 64, 1000, 4093, 4094, 4095, 4096, 4097, 5000, 65533, 65534, 65535, 65536, 70000];
    for &n in &ns {
        for &s in &sizes {
            let big = s > 10000;
            let initial = rng.pick(&[0usize, 1, n, n + 2, n + 3]);
            let initial = if big { initial.min(6) } else { initial };
            v.push(Cfg {
                n,
                max_pdu: s,
                extra: rng.pick(&[0usize, 0, 1, 50, 1000]),
                distinct: rng.chance(1, 2),
                initial,
                steps: if big { 160 } else { 260 },
                big,
                fault_pct: 0,
                save_mode: 0,
                snap_every: if big || n > 64 { 40 } else { 3 },
            });
        }
    }
    v
}

#[test]
fn c08_t1_sizes() {
    let mut st = Stats::default();
    directed_sizes::<SimpleGseMemory>(&mut st);
    directed_sizes::<Faulty>(&mut st);
    st.print("T1 sizes (both memories)");
}

#[test]
fn c08_t2_rejected_traffic_does_not_exhaust() {
    let mut st = Stats::default();
    directed_exhaustion::<SimpleGseMemory>(&mut st);
    directed_exhaustion::<Faulty>(&mut st);
    st.print("T2 rejected traffic (both memories)");
}

#[test]
fn c08_t3_every_memory_failure_point() {
    let mut st = Stats::default();
    directed_fault_points(&mut st);
    st.print("T3 fault points");
}

#[test]
fn c08_t4_sixteen_bit_limits() {
    let mut st = Stats::default();
    directed_16bit::<SimpleGseMemory>(&mut st);
    directed_16bit::<Faulty>(&mut st);
    st.print("T4 16 bit limits (both memories)");
}

fn seeds() -> u64 {
    std::env::var("C08_SEEDS").ok().and_then(|s| s.parse().ok()).unwrap_or(6)
}

#[test]
fn c08_t5_random_histories_plain_memory() {
    let mut st = Stats::default();
    for seed in 0..seeds() {
        for (i, c) in cfgs(seed).into_iter().enumerate() {
            st.merge(&random_history::<SimpleGseMemory>(c, seed * 1000 + i as u64));
        }
    }
    st.print("T5 random histories, SimpleGseMemory");
}

#[test]
fn c08_t5_random_histories_faulty_memory() {
    let mut st = Stats::default();
    for seed in 0..seeds() {
        for (i, mut c) in cfgs(seed + 77).into_iter().enumerate() {
            c.fault_pct = [0, 10, 35][i % 3];
            c.save_mode = (i % 2) as u8;
            st.merge(&random_history::<Faulty>(c, 555_000 + seed * 1000 + i as u64));
        }
    }
    st.print("T5 random histories, fault injecting memory");
}

#[test]
fn c08_t6_encapsulator_traffic() {
    let mut st = Stats::default();
    for seed in 0..40 * seeds() {
        encap_traffic::<SimpleGseMemory>(seed, &mut st);
        encap_traffic::<Faulty>(seed + 9999, &mut st);
    }
    st.print("T6 encapsulator traffic");
}
