// Harness for property C12 (second-round adversarial review).
//
// C12: the default CRC is CRC-32/MPEG-2 (poly 0x04C11DB7, init 0xFFFFFFFF, no reflection, no final
// XOR) over total-length(2,BE) | protocol-type(2,BE) | label | PDU; this value is what the
// encapsulator writes big-endian in the last four bytes of an end fragment, and what the
// decapsulator recomputes (empty label when the first fragment used label re-use).
//
// Public API only. Self-contained (own PRNG, own bitwise CRC reference, own packet parser and
// own packet builder). Run with
//   CARGO_NET_OFFLINE=true cargo test --offline --test harness_C12 -- --nocapture
//   CARGO_NET_OFFLINE=true cargo test --offline --release --test harness_C12 -- --nocapture
// Environment: C12_SEED (u64, default 0xC12), C12_SCALE (multiplier of the random case counts).

use dvb_gse_rust::crc::{CrcCalculator, DefaultCrc};
use dvb_gse_rust::gse_decap::{
    DecapError, DecapMemoryError, DecapMetadata, DecapStatus, Decapsulator, GseDecapMemory,
    SimpleGseMemory,
};
use dvb_gse_rust::gse_encap::{ContextFrag, EncapError, EncapMetadata, EncapStatus, Encapsulator};
use dvb_gse_rust::header_extension::{
    Extension, MandatoryHeaderExt, MandatoryHeaderExtensionManager,
};
use dvb_gse_rust::label::Label;

// ---------------------------------------------------------------------------------------------
// PRNG
// ---------------------------------------------------------------------------------------------
#[derive(Clone)]
struct Rng(u64);
impl Rng {
    fn new(seed: u64) -> Self {
        let mut r = Rng(seed ^ 0x9E37_79B9_7F4A_7C15);
        if r.0 == 0 {
            r.0 = 1;
        }
        for _ in 0..8 {
            r.next();
        }
        r
    }
    fn next(&mut self) -> u64 {
        let mut x = self.0;
        x ^= x >> 12;
        x ^= x << 25;
        x ^= x >> 27;
        self.0 = x;
        x.wrapping_mul(0x2545_F491_4F6C_DD1D)
    }
    fn below(&mut self, n: usize) -> usize {
        assert!(n > 0);
        (self.next() % n as u64) as usize
    }
    fn range(&mut self, lo: usize, hi_incl: usize) -> usize {
        lo + self.below(hi_incl - lo + 1)
    }
    fn chance(&mut self, num: usize, den: usize) -> bool {
        self.below(den) < num
    }
    fn bytes(&mut self, n: usize) -> Vec<u8> {
        let mut v = Vec::with_capacity(n);
        while v.len() + 8 <= n {
            v.extend_from_slice(&self.next().to_le_bytes());
        }
        while v.len() < n {
            v.push(self.next() as u8);
        }
        v
    }
    fn pick<T: Clone>(&mut self, xs: &[T]) -> T {
        xs[self.below(xs.len())].clone()
    }
}

fn base_seed() -> u64 {
    std::env::var("C12_SEED")
        .ok()
        .and_then(|s| s.parse::<u64>().ok())
        .unwrap_or(0xC12)
}
fn scale() -> usize {
    let m = std::env::var("C12_SCALE")
        .ok()
        .and_then(|s| s.parse::<usize>().ok())
        .unwrap_or(1);
    m * if cfg!(debug_assertions) { 1 } else { 4 }
}

// ---------------------------------------------------------------------------------------------
// Reference CRC-32/MPEG-2, bit by bit (no table)
// ---------------------------------------------------------------------------------------------
fn ref_step(mut crc: u32, byte: u8) -> u32 {
    crc ^= (byte as u32) << 24;
    for _ in 0..8 {
        crc = if crc & 0x8000_0000 != 0 {
            (crc << 1) ^ 0x04C1_1DB7
        } else {
            crc << 1
        };
    }
    crc
}
fn ref_run(mut crc: u32, data: &[u8]) -> u32 {
    for b in data {
        crc = ref_step(crc, *b);
    }
    crc
}
fn ref_crc(total_len: u16, ptype: u16, label: &[u8], pdu: &[u8]) -> u32 {
    let mut c = 0xFFFF_FFFFu32;
    c = ref_run(c, &total_len.to_be_bytes());
    c = ref_run(c, &ptype.to_be_bytes());
    c = ref_run(c, label);
    ref_run(c, pdu)
}
/// second, structurally different reference: polynomial long division over the bit string
/// (message with the first 32 bits complemented, followed by 32 zero bits)
fn ref_crc_longdiv(msg: &[u8]) -> u32 {
    let mut bits: Vec<u8> = Vec::with_capacity(msg.len() * 8 + 32);
    for b in msg {
        for k in (0..8).rev() {
            bits.push((b >> k) & 1);
        }
    }
    for _ in 0..32 {
        bits.push(0);
    }
    // init 0xFFFFFFFF == complement of the first 32 bits of the (padded) message
    for b in bits.iter_mut().take(32) {
        *b ^= 1;
    }
    let poly: u64 = 0x1_04C1_1DB7;
    let n = bits.len();
    for i in 0..n - 32 {
        if bits[i] == 1 {
            for k in 0..33 {
                bits[i + k] ^= ((poly >> (32 - k)) & 1) as u8;
            }
        }
    }
    let mut r = 0u32;
    for b in &bits[n - 32..] {
        r = (r << 1) | *b as u32;
    }
    r
}
fn dut_crc(total_len: u16, ptype: u16, label: &[u8], pdu: &[u8]) -> u32 {
    DefaultCrc {}.calculate_crc32(pdu, ptype, total_len, label)
}

// ---------------------------------------------------------------------------------------------
// 1. The calculator itself
// ---------------------------------------------------------------------------------------------
#[test]
fn c12_crc_check_values() {
    // CRC-32/MPEG-2("123456789") = 0x0376E6E7 (catalogue check value)
    assert_eq!(ref_run(0xFFFF_FFFF, b"123456789"), 0x0376_E6E7);
    assert_eq!(ref_crc_longdiv(b"123456789"), 0x0376_E6E7);
    assert_eq!(dut_crc(0x3132, 0x3334, b"", b"56789"), 0x0376_E6E7);
    assert_eq!(dut_crc(0x3132, 0x3334, b"567", b"89"), 0x0376_E6E7);
    assert_eq!(dut_crc(0x3132, 0x3334, b"567", b"89"), 0x0376_E6E7);
    assert_eq!(dut_crc(0x3132, 0x3334, b"56789", b""), 0x0376_E6E7);
    // empty everything: CRC of the 4 header bytes only
    assert_eq!(dut_crc(0, 0, b"", b""), ref_run(0xFFFF_FFFF, &[0, 0, 0, 0]));
    assert_eq!(dut_crc(0, 0, b"", b""), ref_crc_longdiv(&[0, 0, 0, 0]));
    assert_eq!(
        dut_crc(0xFFFF, 0xFFFF, &[0xFF; 6], &[0xFF; 9]),
        ref_crc_longdiv(&[0xFF; 19])
    );
    println!("[C12 crc_check_values] 9 fixed vectors");
}

#[test]
fn c12_crc_every_table_index_every_position() {
    // For a message of total length 4 + label + pdu, at every byte position every byte value is
    // tried (the table index is (crc>>24)^byte, so with a fixed prefix the 256 values give the
    // 256 indices). The reference is table-free.
    let mut rng = Rng::new(base_seed() ^ 0x11);
    let mut cases = 0u64;
    let mut idx_seen_total = 0u64;
    for &label_len in &[0usize, 3, 6] {
        for &pdu_len in &[0usize, 1, 2, 7, 64, 300] {
            let n = 4 + label_len + pdu_len;
            let base = rng.bytes(n);
            for pos in 0..n {
                let mut seen = [false; 256];
                let prefix_state = ref_run(0xFFFF_FFFF, &base[..pos]);
                for v in 0..=255u8 {
                    let mut m = base.clone();
                    m[pos] = v;
                    seen[(((prefix_state >> 24) as u8) ^ v) as usize] = true;
                    let tl = u16::from_be_bytes([m[0], m[1]]);
                    let pt = u16::from_be_bytes([m[2], m[3]]);
                    let label = &m[4..4 + label_len];
                    let pdu = &m[4 + label_len..];
                    let exp = ref_run(0xFFFF_FFFF, &m);
                    assert_eq!(
                        dut_crc(tl, pt, label, pdu),
                        exp,
                        "label_len {label_len} pdu_len {pdu_len} pos {pos} value {v}"
                    );
                    cases += 1;
                }
                assert!(seen.iter().all(|s| *s));
                idx_seen_total += 256;
            }
        }
    }
    // long PDUs: positions at the corners, all 256 values
    let big = rng.bytes(65535);
    for &pdu_len in &[4093usize, 4096, 4097, 65533, 65534, 65535] {
        let positions: Vec<usize> = vec![
            0,
            1,
            pdu_len / 2,
            4092.min(pdu_len - 1),
            pdu_len - 2,
            pdu_len - 1,
        ];
        for &label_len in &[0usize, 3, 6] {
            let label = rng.bytes(label_len);
            let tl = rng.next() as u16;
            let pt = rng.next() as u16;
            let head = {
                let mut c = ref_run(0xFFFF_FFFF, &tl.to_be_bytes());
                c = ref_run(c, &pt.to_be_bytes());
                ref_run(c, &label)
            };
            for &pos in &positions {
                let pre = ref_run(head, &big[..pos]);
                let step = if cfg!(debug_assertions) { 17 } else { 3 };
                let mut v = 0usize;
                while v < 256 {
                    let mut pdu = big[..pdu_len].to_vec();
                    pdu[pos] = v as u8;
                    let exp = ref_run(ref_step(pre, v as u8), &pdu[pos + 1..]);
                    assert_eq!(dut_crc(tl, pt, &label, &pdu), exp);
                    cases += 1;
                    v += step;
                }
            }
        }
    }
    println!(
        "[C12 crc_every_table_index_every_position] {cases} CRC comparisons, {idx_seen_total} (position,index) pairs proven covered"
    );
}

#[test]
fn c12_crc_all_pdu_lengths() {
    // every PDU length 0..=65535 (prefixes of one random buffer), label length 0/3/6
    let mut rng = Rng::new(base_seed() ^ 0x22);
    let big = rng.bytes(65535);
    let mut cases = 0u64;
    for &label_len in &[0usize, 3, 6] {
        let label = rng.bytes(label_len);
        let tl = rng.next() as u16;
        let pt = rng.next() as u16;
        let mut st = ref_run(0xFFFF_FFFF, &tl.to_be_bytes());
        st = ref_run(st, &pt.to_be_bytes());
        st = ref_run(st, &label);
        // in debug the quadratic sweep is strided for the middle lengths (corners are all done)
        for len in 0..=65535usize {
            if len > 0 {
                st = ref_step(st, big[len - 1]);
            }
            let corner = len <= 300
                || (4000..=4200).contains(&len)
                || len >= 65400
                || (8100..=8300).contains(&len);
            let doit = if cfg!(debug_assertions) {
                corner || (len + label_len) % 29 == 0
            } else {
                label_len == 0 || corner || len % 3 == label_len / 3
            };
            if doit {
                assert_eq!(dut_crc(tl, pt, &label, &big[..len]), st, "len {len}");
                cases += 1;
            }
        }
    }
    println!("[C12 crc_all_pdu_lengths] {cases} lengths checked");
}

#[test]
fn c12_crc_all_total_lengths_and_protocol_types() {
    let mut rng = Rng::new(base_seed() ^ 0x33);
    let mut cases = 0u64;
    let pts: Vec<u16> = vec![
        0, 1, 0x81, 0x82, 0xFF, 0x100, 0x101, 0x1FF, 0x200, 0x300, 0x400, 0x500, 0x5FF, 0x600,
        0x601, 0x800, 0x86DD, 0x8000, 0xFFFE, 0xFFFF,
    ];
    for &label_len in &[0usize, 3, 6] {
        let label = rng.bytes(label_len);
        let n = rng.below(20);
        let pdu = rng.bytes(n);
        for tl in 0..=65535u16 {
            for &pt in &pts {
                assert_eq!(dut_crc(tl, pt, &label, &pdu), ref_crc(tl, pt, &label, &pdu));
                cases += 1;
            }
        }
        let tls: Vec<u16> = vec![0, 1, 2, 5, 8, 0xFF, 0x100, 4095, 4096, 0x7FFF, 0x8000, 0xFFFE, 0xFFFF];
        for pt in 0..=65535u16 {
            for &tl in &tls {
                assert_eq!(dut_crc(tl, pt, &label, &pdu), ref_crc(tl, pt, &label, &pdu));
                cases += 1;
            }
        }
    }
    // random (tl, pt) pairs with random label/pdu, also against the long-division reference
    for _ in 0..2000 * scale() {
        let tl = rng.next() as u16;
        let pt = rng.next() as u16;
        let n = rng.pick(&[0usize, 3, 6]);
        let label = rng.bytes(n);
        let n = rng.below(40);
        let pdu = rng.bytes(n);
        let mut msg = vec![];
        msg.extend_from_slice(&tl.to_be_bytes());
        msg.extend_from_slice(&pt.to_be_bytes());
        msg.extend_from_slice(&label);
        msg.extend_from_slice(&pdu);
        let e = ref_crc_longdiv(&msg);
        assert_eq!(e, ref_crc(tl, pt, &label, &pdu));
        assert_eq!(dut_crc(tl, pt, &label, &pdu), e);
        cases += 1;
    }
    println!("[C12 crc_all_total_lengths_and_protocol_types] {cases} comparisons");
}

// ---------------------------------------------------------------------------------------------
// Receiver-side knowledge of mandatory extensions
// ---------------------------------------------------------------------------------------------
#[derive(Clone, Copy)]
struct Mgr;
impl MandatoryHeaderExtensionManager for Mgr {
    fn is_mandatory_header_id_known(&self, id: u16) -> MandatoryHeaderExt {
        match id {
            0x10..=0x18 => MandatoryHeaderExt::NonFinal((id - 0x10) as u8),
            0x20..=0x28 => MandatoryHeaderExt::Final((id - 0x20) as u8),
            0x00 | 0x81 | 0x82 | 0xFF => MandatoryHeaderExt::Final(0),
            _ => MandatoryHeaderExt::Unknown,
        }
    }
}
type Dec = Decapsulator<SimpleGseMemory, DefaultCrc, Mgr>;

fn mk_dec(slots: usize, max_pdu_size: usize, storage_len: usize, n_prov: usize) -> Dec {
    let mut memory = SimpleGseMemory::new(slots, max_pdu_size, 0, 0);
    for _ in 0..n_prov {
        memory
            .provision_storage(vec![0xA5u8; storage_len].into_boxed_slice())
            .unwrap();
    }
    Decapsulator::new(memory, DefaultCrc {}, Mgr)
}

// ---------------------------------------------------------------------------------------------
// PDU specification and the model of the wire format
// ---------------------------------------------------------------------------------------------
#[derive(Clone, Debug)]
struct Spec {
    pdu: Vec<u8>,
    ptype: u16,
    label: Label,
    exts: Vec<(u16, Vec<u8>)>,
    frag_id: u8,
}
impl Spec {
    /// value of the "protocol type" field of the header
    fn first_id(&self) -> u16 {
        if self.exts.is_empty() {
            self.ptype
        } else {
            self.exts[0].0
        }
    }
    /// bytes between the label and the PDU
    fn tail(&self) -> Vec<u8> {
        let mut t = vec![];
        if self.exts.is_empty() {
            return t;
        }
        t.extend_from_slice(&self.exts[0].1);
        for (id, data) in &self.exts[1..] {
            t.extend_from_slice(&id.to_be_bytes());
            t.extend_from_slice(data);
        }
        if self.ptype >= 0x600 {
            t.extend_from_slice(&self.ptype.to_be_bytes());
        }
        t
    }
    fn api_exts(&self) -> Vec<Extension> {
        self.exts
            .iter()
            .map(|(id, d)| Extension::new(*id, d).unwrap())
            .collect()
    }
    /// extensions the receiver (with `Mgr`) must report
    fn rx_exts(&self) -> Vec<Extension> {
        if self.exts.is_empty() && self.ptype < 0x100 {
            vec![Extension::new(self.ptype, &[]).unwrap()]
        } else {
            self.api_exts()
        }
    }
}

fn gen_exts(rng: &mut Rng, want_final: Option<u16>) -> Vec<(u16, Vec<u8>)> {
    let n = rng.range(1, 4);
    let mut v = vec![];
    for i in 0..n {
        let last = i == n - 1;
        if last {
            if let Some(fid) = want_final {
                let dl = (fid - 0x20) as usize;
                v.push((fid, rng.bytes(dl)));
                break;
            }
        }
        match rng.below(7) {
            0 => {
                // non final mandatory with 0..8 data bytes
                let dl = rng.below(9);
                v.push((0x10 + dl as u16, rng.bytes(dl)));
            }
            k => {
                let hlen = if k == 6 { rng.range(1, 5) } else { k }; // 1..=5
                let id = ((hlen as u16) << 8) | rng.pick(&[0u16, 1, 0x7F, 0x80, 0xFF, 0x42]);
                let dl = [0usize, 0, 2, 4, 6, 8][hlen];
                v.push((id, rng.bytes(dl)));
            }
        }
    }
    v
}

fn corner_pdu_lens() -> Vec<usize> {
    let mut v: Vec<usize> = vec![0, 1, 2, 3, 4, 5, 6, 7, 8, 9, 10, 11, 12, 13, 14, 15, 16];
    v.extend(4075..=4100);
    v.extend([8180, 8188, 8189, 8190, 8191, 8192, 12285]);
    v.extend(65515..=65533);
    v
}

// ---------------------------------------------------------------------------------------------
// Walking a frame with the decapsulator
// ---------------------------------------------------------------------------------------------
enum Ev {
    Completed(Vec<u8>, DecapMetadata, usize),
    Frag(DecapMetadata),
    Padding,
    Err(DecapError),
}
/// walks the frame; a delivered storage is copied (PDU part) and given back to the memory at once
fn walk(dec: &mut Dec, frame: &[u8]) -> Vec<Ev> {
    let mut pos = 0;
    let mut ev = vec![];
    while pos < frame.len() {
        match dec.decap(&frame[pos..]) {
            Ok((st, n)) => {
                assert!(n > 0 && pos + n <= frame.len(), "bad consumed length {n}");
                pos += n;
                ev.push(match st {
                    DecapStatus::CompletedPkt(buf, md) => {
                        let l = buf.len();
                        let v = buf[..md.pdu_len()].to_vec();
                        dec.provision_storage(buf).unwrap();
                        Ev::Completed(v, md, l)
                    }
                    DecapStatus::FragmentedPkt(md) => Ev::Frag(md),
                    DecapStatus::Padding => Ev::Padding,
                });
            }
            Err((er, n)) => {
                assert!(n > 0 && pos + n <= frame.len(), "bad consumed length {n}");
                pos += n;
                ev.push(Ev::Err(er));
            }
        }
    }
    ev
}

// ---------------------------------------------------------------------------------------------
// 2. End to end, clean traffic: every emitted packet is parsed against the model (CRC field of
//    the end fragment == reference CRC), every packet is then decapsulated from frames with
//    padding, several PDUs interleaved.
// ---------------------------------------------------------------------------------------------
struct Flight {
    spec: Spec,
    ctx: Option<ContextFrag>,
    started: bool,
    finished: bool,
    fragmented: bool,
    resolved: Option<Label>,
    wire_label: Vec<u8>,
    total_len: u16,
    sent: usize,
    npk: usize,
    force_big: bool,
}

#[derive(Default, Debug)]
struct Stats {
    pdus: u64,
    complete: u64,
    fragmented: u64,
    packets: u64,
    end_crc_checked: u64,
    reuse_first_frag: u64,
    reuse_complete: u64,
    ext_pdus: u64,
    final_mand: u64,
    frames: u64,
    delivered: u64,
    big_pdus: u64,
    err_pdu_len: u64,
    err_ptype: u64,
    err_label: u64,
    err_size_retry: u64,
    zero_first: u64,
    crc_only_end: u64,
    big_buffer_calls: u64,
}

/// parse an emitted packet against the model; returns (is_start, is_end)
fn check_emitted(fl: &mut Flight, b: &[u8], model_last: &mut Option<Label>, st: &mut Stats) -> (bool, bool) {
    let h = u16::from_be_bytes([b[0], b[1]]);
    let s = h & 0x8000 != 0;
    let e = h & 0x4000 != 0;
    let lt = ((h >> 12) & 3) as u8;
    let gl = (h & 0x0FFF) as usize;
    assert_eq!(gl + 2, b.len(), "gse length field vs emitted length");
    assert!(b.len() <= 4097);
    let pdu = &fl.spec.pdu;
    let mut o = 2;
    if s {
        assert!(!fl.started);
        fl.started = true;
        if !e {
            assert_eq!(b[o], fl.spec.frag_id);
            fl.total_len = u16::from_be_bytes([b[o + 1], b[o + 2]]);
            o += 3;
            fl.fragmented = true;
        }
        let first_id = u16::from_be_bytes([b[o], b[o + 1]]);
        o += 2;
        assert_eq!(first_id, fl.spec.first_id());
        let (wire_label, resolved): (Vec<u8>, Label) = match lt {
            0 => {
                let l: [u8; 6] = b[o..o + 6].try_into().unwrap();
                assert_eq!(fl.spec.label, Label::SixBytesLabel(l));
                *model_last = Some(fl.spec.label);
                (l.to_vec(), fl.spec.label)
            }
            1 => {
                let l: [u8; 3] = b[o..o + 3].try_into().unwrap();
                assert_eq!(fl.spec.label, Label::ThreeBytesLabel(l));
                *model_last = Some(fl.spec.label);
                (l.to_vec(), fl.spec.label)
            }
            2 => {
                assert_eq!(fl.spec.label, Label::Broadcast);
                *model_last = None;
                (vec![], Label::Broadcast)
            }
            _ => {
                let r = model_last.expect("re-use label emitted while the receiver has no label");
                if fl.spec.label != Label::ReUse {
                    assert_eq!(r, fl.spec.label, "re-use emitted for a different label");
                }
                if e {
                    st.reuse_complete += 1;
                } else {
                    st.reuse_first_frag += 1;
                }
                (vec![], r)
            }
        };
        o += wire_label.len();
        fl.wire_label = wire_label;
        fl.resolved = Some(resolved);
        let tail = fl.spec.tail();
        assert_eq!(&b[o..o + tail.len()], &tail[..], "extension chain / protocol type");
        o += tail.len();
        let part = &b[o..];
        assert!(part.len() <= pdu.len());
        assert_eq!(part, &pdu[..part.len()]);
        fl.sent = part.len();
        if e {
            assert_eq!(part.len(), pdu.len());
        } else {
            assert!(part.len() < pdu.len());
            assert_eq!(
                fl.total_len as usize,
                pdu.len() + 2 + fl.wire_label.len(),
                "total length field"
            );
            if part.is_empty() {
                st.zero_first += 1;
            }
        }
    } else {
        assert!(fl.started && fl.fragmented);
        assert_eq!(lt, 3);
        assert_eq!(b[2], fl.spec.frag_id);
        if !e {
            let data = &b[3..];
            assert!(!data.is_empty(), "empty intermediate fragment");
            assert_eq!(data, &pdu[fl.sent..fl.sent + data.len()]);
            fl.sent += data.len();
        } else {
            assert!(b.len() >= 7);
            let data = &b[3..b.len() - 4];
            assert_eq!(data, &pdu[fl.sent..]);
            fl.sent += data.len();
            if data.is_empty() {
                st.crc_only_end += 1;
            }
            let crc = u32::from_be_bytes(b[b.len() - 4..].try_into().unwrap());
            // ---- C12, sender side ----
            let exp = ref_crc(fl.total_len, fl.spec.ptype, &fl.wire_label, pdu);
            assert_eq!(
                crc, exp,
                "CRC of end fragment: pdu_len {} ptype {:#x} wire label {:?} total_len {}",
                pdu.len(),
                fl.spec.ptype,
                fl.wire_label,
                fl.total_len
            );
            assert_eq!(crc, dut_crc(fl.total_len, fl.spec.ptype, &fl.wire_label, pdu));
            st.end_crc_checked += 1;
        }
    }
    fl.npk += 1;
    st.packets += 1;
    (s, e)
}

struct LabelPool {
    six_a: [u8; 6],
    six_b: [u8; 6],
    three_c: [u8; 3],
}

fn gen_label(rng: &mut Rng, pool: &LabelPool, model_last: &Option<Label>) -> Label {
    match rng.below(12) {
        0 | 1 | 2 => Label::SixBytesLabel(pool.six_a),
        3 => Label::SixBytesLabel(pool.six_b),
        4 | 5 => Label::ThreeBytesLabel([0, 0, 0]),
        6 => Label::ThreeBytesLabel(pool.three_c),
        7 | 8 => Label::Broadcast,
        9 => {
            if model_last.is_some() {
                Label::ReUse
            } else {
                Label::SixBytesLabel(pool.six_a)
            }
        }
        10 => {
            let b = rng.bytes(6);
            let mut l: [u8; 6] = b.try_into().unwrap();
            l[5] |= 1;
            Label::SixBytesLabel(l)
        }
        _ => {
            // 6 bytes label with zeros in it, not all zero
            let mut l = [0u8; 6];
            l[rng.below(6)] = 1 + rng.below(255) as u8;
            Label::SixBytesLabel(l)
        }
    }
}

fn gen_ptype(rng: &mut Rng) -> u16 {
    match rng.below(8) {
        0 => 0x0600,
        1 => 0x0601,
        2 => 0x0800,
        3 => 0x86DD,
        4 => 0xFFFF,
        _ => 0x600 + (rng.next() % (0x10000 - 0x600)) as u16,
    }
}

fn e2e_session(rng: &mut Rng, st: &mut Stats, big: bool, n_pdus: usize) {
    let corner = corner_pdu_lens();
    let slots = if big {
        rng.pick(&[1usize, 2, 3, 5])
    } else {
        rng.pick(&[1usize, 1, 2, 3, 4, 7, 8, 16, 31, 255, 256])
    };
    let max_len = if big { 65533 } else { rng.pick(&[16usize, 300, 4200]) };
    let storage_len = if big {
        rng.pick(&[65533usize, 65535, 65536, 70000])
    } else {
        rng.pick(&[max_len, max_len + 1, max_len + 1000, 65536, 70000])
    };
    let n_prov = slots + rng.range(1, 2);
    let mut dec = mk_dec(slots, max_len, storage_len, n_prov);
    let mut enc = Encapsulator::new(DefaultCrc {});
    match rng.below(4) {
        0 => enc.disable_re_use_label(),
        1 => enc.enable_re_use_label_with_max_consecutive(rng.range(1, 3) as u8),
        _ => {}
    }
    let pool = LabelPool {
        six_a: [0x02, 0, 0, 0, 0, rng.next() as u8 | 1],
        six_b: rng.bytes(6).try_into().unwrap(),
        three_c: rng.bytes(3).try_into().unwrap(),
    };
    let max_conc = slots.min(4);
    let frame_sizes: Vec<usize> = vec![64, 80, 100, 150, 300, 1000, 4096, 4097, 4098, 4200, 8000, 20000, 70000];
    let new_frame = |rng: &mut Rng, min: usize| -> Vec<u8> {
        let mut f = rng.pick(&frame_sizes);
        if rng.chance(1, 3) {
            f = rng.range(64, 400);
        }
        vec![0u8; f.max(min)]
    };
    let mut frame = new_frame(rng, 64);
    let mut pos = 0usize;
    let mut model_last: Option<Label> = None;
    let mut flights: Vec<Flight> = vec![];
    let mut pending: Vec<(usize, bool, bool)> = vec![]; // (flight index, start, end) per packet of the frame
    let mut started = 0usize;
    let mut stuck = 0usize;

    loop {
        let active: Vec<usize> = (0..flights.len()).filter(|i| !flights[*i].finished).collect();
        if active.is_empty() && started == n_pdus {
            break;
        }
        // start a new PDU?
        if started < n_pdus && (active.is_empty() || (active.len() < max_conc && rng.chance(1, 3))) {
            let used: Vec<usize> = active
                .iter()
                .map(|i| flights[*i].spec.frag_id as usize % slots)
                .collect();
            let frag_id = loop {
                let f = rng.next() as u8;
                if !used.contains(&(f as usize % slots)) {
                    break f;
                }
            };
            let len = if big {
                match rng.below(6) {
                    0 => rng.pick(&corner),
                    1 => rng.range(65500, 65540),
                    2 => rng.range(4000, 9000),
                    3 => rng.range(9000, 65533),
                    _ => rng.range(0, 200),
                }
            } else {
                let c: Vec<usize> = corner.iter().cloned().filter(|l| *l <= max_len).collect();
                if rng.chance(1, 2) {
                    rng.pick(&c)
                } else {
                    rng.range(0, max_len)
                }
            };
            let label = if rng.chance(1, 60) {
                Label::SixBytesLabel([0; 6])
            } else {
                gen_label(rng, &pool, &model_last)
            };
            let (ptype, exts) = match rng.below(10) {
                0 | 1 | 2 => {
                    st.ext_pdus += 1;
                    (gen_ptype(rng), gen_exts(rng, None))
                }
                3 => {
                    st.ext_pdus += 1;
                    st.final_mand += 1;
                    let fid = 0x20 + rng.below(9) as u16;
                    (fid, gen_exts(rng, Some(fid)))
                }
                4 => {
                    // plain encap with a "final mandatory extension without data" as protocol type
                    st.final_mand += 1;
                    (rng.pick(&[0x0000u16, 0x0020, 0x0081, 0x0082, 0x00FF]), vec![])
                }
                5 if rng.chance(1, 4) => (rng.pick(&[0x0100u16, 0x0101, 0x0300, 0x05FF]), vec![]),
                _ => (gen_ptype(rng), vec![]),
            };
            let spec = Spec {
                pdu: rng.bytes(len),
                ptype,
                label,
                exts,
                frag_id,
            };
            if len > 4100 {
                st.big_pdus += 1;
            }
            flights.push(Flight {
                spec,
                ctx: None,
                started: false,
                finished: false,
                fragmented: false,
                resolved: None,
                wire_label: vec![],
                total_len: 0,
                sent: 0,
                npk: 0,
                force_big: false,
            });
            started += 1;
            st.pdus += 1;
            continue;
        }
        let fi = rng.pick(&active);
        let remaining = frame.len() - pos;
        // choose the buffer handed to the encapsulator
        let lim = {
            let fl = &flights[fi];
            let plen = fl.spec.pdu.len();
            let hdr = 4 + fl.spec.label.len() + fl.spec.tail().len();
            let l = if fl.force_big {
                remaining
            } else if !fl.started {
                match rng.below(10) {
                    0 => hdr + plen,
                    1 => (hdr + plen).saturating_sub(1),
                    2 => hdr + plen + 1,
                    3 => hdr + 3,
                    4 => hdr + 3 + rng.below(4),
                    5 => rng.range(4090, 4100),
                    6 => rng.range(1, 60),
                    7 => (hdr + plen).saturating_sub(rng.range(1, 8)),
                    _ => remaining,
                }
            } else {
                let rem = plen - fl.sent;
                match rng.below(10) {
                    0 => rem + 7,
                    1 => rem + 6,
                    2 => rem + 3,
                    3 => rem + 2,
                    4 => rng.range(1, 12),
                    5 => rng.range(4090, 4100),
                    6 => rng.range(4, 300),
                    7 => rem + 8,
                    _ => remaining,
                }
            };
            l.min(remaining)
        };
        if lim > 4097 {
            st.big_buffer_calls += 1;
        }
        if !flights[fi].started && flights[fi].spec.label == Label::ReUse && model_last.is_none() {
            // an explicit re-use label is only legitimate while the receiver holds a label
            flights[fi].spec.label = Label::SixBytesLabel(pool.six_a);
        }
        let res = {
            let fl = &flights[fi];
            let buf = &mut frame[pos..pos + lim];
            if !fl.started {
                let md = EncapMetadata::new(fl.spec.ptype, fl.spec.label);
                if fl.spec.exts.is_empty() {
                    enc.encap(&fl.spec.pdu, fl.spec.frag_id, md, buf)
                } else {
                    enc.encap_ext(&fl.spec.pdu, fl.spec.frag_id, md, buf, fl.spec.api_exts())
                }
            } else {
                enc.encap_frag(&fl.spec.pdu, fl.ctx.as_ref().unwrap(), buf)
            }
        };
        let mut close = false;
        match res {
            Ok(status) => {
                stuck = 0;
                let (n, ctx) = match status {
                    EncapStatus::CompletedPkt(n) => (n as usize, None),
                    EncapStatus::FragmentedPkt(n, c) => (n as usize, Some(c)),
                };
                assert!(n <= lim, "packet longer than the buffer");
                let bytes = frame[pos..pos + n].to_vec();
                let fl = &mut flights[fi];
                fl.force_big = false;
                let (s, e) = check_emitted(fl, &bytes, &mut model_last, st);
                assert_eq!(e, ctx.is_none(), "status vs E bit");
                if let Some(c) = ctx {
                    assert_eq!(c.frag_id(), fl.spec.frag_id);
                    assert_eq!(c.len_pdu_frag() as usize, fl.sent);
                    assert_eq!(
                        c.crc(),
                        ref_crc(fl.total_len, fl.spec.ptype, &fl.wire_label, &fl.spec.pdu),
                        "CRC kept in the fragmentation context"
                    );
                    fl.ctx = Some(c);
                } else {
                    fl.finished = true;
                    assert_eq!(fl.sent, fl.spec.pdu.len());
                    if s {
                        st.complete += 1;
                    } else {
                        st.fragmented += 1;
                    }
                }
                pending.push((fi, s, e));
                pos += n;
            }
            Err(err) => {
                let fl = &mut flights[fi];
                match err {
                    EncapError::ErrorPduLength => {
                        assert!(!fl.started);
                        assert!(fl.spec.pdu.len() + 2 + fl.spec.label.len() > 65535 || fl.spec.pdu.len() + 2 + 6 > 65535);
                        assert!(fl.spec.pdu.len() >= 65528);
                        fl.finished = true;
                        st.err_pdu_len += 1;
                    }
                    EncapError::ErrorProtocolType => {
                        assert!((0x100..0x600).contains(&fl.spec.ptype));
                        fl.finished = true;
                        st.err_ptype += 1;
                    }
                    EncapError::ErrorInvalidLabel => {
                        assert_eq!(fl.spec.label, Label::SixBytesLabel([0; 6]));
                        fl.finished = true;
                        st.err_label += 1;
                    }
                    EncapError::ErrorSizeBuffer => {
                        st.err_size_retry += 1;
                        if lim == remaining {
                            assert!(
                                !(pos == 0 && frame.len() >= 64 && stuck > 2),
                                "no progress with a fresh frame of {} bytes",
                                frame.len()
                            );
                            close = true;
                            stuck += 1;
                        } else {
                            fl.force_big = true;
                        }
                    }
                    other => panic!("unexpected encap error {other:?}"),
                }
                // a PDU that must be refused must really be refused
            }
        }
        if (0x100..0x600).contains(&flights[fi].spec.ptype) {
            assert!(flights[fi].finished && flights[fi].npk == 0, "forbidden protocol type accepted");
        }
        if flights[fi].spec.pdu.len() > 65533 {
            assert!(flights[fi].npk == 0, "PDU longer than 65533 bytes accepted");
        }
        if frame.len() - pos < 8 || rng.chance(1, 12) {
            close = true;
        }
        let all_done = started == n_pdus && flights.iter().all(|f| f.finished);
        if close || all_done {
            // deliver the frame (the rest is zero padding)
            let flen = if rng.chance(1, 2) { frame.len() } else { pos + rng.below(frame.len() - pos + 1) };
            let ev = walk(&mut dec, &frame[..flen]);
            st.frames += 1;
            assert!(ev.len() >= pending.len(), "fewer decap events than packets");
            for (i, (fidx, s, e)) in pending.iter().enumerate() {
                let fl = &flights[*fidx];
                let md_frag = DecapMetadata::new(0, fl.spec.ptype, fl.resolved.unwrap(), fl.spec.rx_exts());
                match (&ev[i], *e) {
                    (Ev::Frag(md), false) => {
                        assert_eq!(*md, md_frag);
                    }
                    (Ev::Completed(buf, md, blen), true) => {
                        let md_exp = DecapMetadata::new(
                            fl.spec.pdu.len(),
                            fl.spec.ptype,
                            fl.resolved.unwrap(),
                            fl.spec.rx_exts(),
                        );
                        assert_eq!(*md, md_exp);
                        assert_eq!(*blen, storage_len);
                        assert_eq!(&buf[..], &fl.spec.pdu[..], "delivered PDU");
                        st.delivered += 1;
                    }
                    (other, _) => panic!(
                        "packet {i} of the frame (start {s} end {e}, pdu_len {}, frag id {}, slots {slots}): unexpected decap result {}",
                        fl.spec.pdu.len(),
                        fl.spec.frag_id,
                        match other {
                            Ev::Completed(_, m, _) => format!("Completed {m:?}"),
                            Ev::Frag(m) => format!("Fragmented {m:?}"),
                            Ev::Padding => "Padding".to_string(),
                            Ev::Err(x) => format!("{x:?}"),
                        }
                    ),
                }
            }
            // after the packets: nothing, padding, or a lone trailing byte
            for extra in &ev[pending.len()..] {
                match extra {
                    Ev::Padding | Ev::Err(DecapError::ErrorSizeBuffer) => {}
                    _ => panic!("unexpected event in the padding"),
                }
            }
            assert!(ev.len() <= pending.len() + 1);
            pending.clear();
            enc.reset_last_label();
            dec.reset_last_label();
            model_last = None;
            let min = if stuck > 0 { 4200 } else { 64 };
            frame = new_frame(rng, min);
            pos = 0;
            if rng.chance(1, 25) {
                match rng.below(3) {
                    0 => enc.disable_re_use_label(),
                    1 => enc.enable_re_use_label(),
                    _ => enc.enable_re_use_label_with_max_consecutive(rng.range(1, 3) as u8),
                }
            }
        }
    }
}

#[test]
fn c12_e2e_clean_small() {
    let mut st = Stats::default();
    let mut rng = Rng::new(base_seed() ^ 0x44);
    for _ in 0..150 * scale() {
        e2e_session(&mut rng, &mut st, false, 40);
    }
    println!("[C12 e2e_clean_small] {st:?}");
    assert!(st.end_crc_checked > 100 && st.reuse_first_frag > 10 && st.delivered > 1000);
}

#[test]
fn c12_e2e_clean_big() {
    let mut st = Stats::default();
    let mut rng = Rng::new(base_seed() ^ 0x55);
    for _ in 0..12 * scale() {
        e2e_session(&mut rng, &mut st, true, 25);
    }
    println!("[C12 e2e_clean_big] {st:?}");
    assert!(st.end_crc_checked > 20 && st.delivered > 100);
}

// ---------------------------------------------------------------------------------------------
// Packet builder (independent of the encapsulator)
// ---------------------------------------------------------------------------------------------
fn hdr(s: bool, e: bool, lt: u8, gse_len: usize) -> [u8; 2] {
    assert!(gse_len <= 4095);
    let h: u16 = ((s as u16) << 15) | ((e as u16) << 14) | ((lt as u16) << 12) | gse_len as u16;
    h.to_be_bytes()
}
fn hb_first(fid: u8, total_len: u16, first_id: u16, lt: u8, label: &[u8], tail: &[u8], part: &[u8]) -> Vec<u8> {
    let gl = 3 + 2 + label.len() + tail.len() + part.len();
    let mut v = hdr(true, false, lt, gl).to_vec();
    v.push(fid);
    v.extend_from_slice(&total_len.to_be_bytes());
    v.extend_from_slice(&first_id.to_be_bytes());
    v.extend_from_slice(label);
    v.extend_from_slice(tail);
    v.extend_from_slice(part);
    v
}
fn hb_complete(first_id: u16, lt: u8, label: &[u8], tail: &[u8], pdu: &[u8]) -> Vec<u8> {
    let gl = 2 + label.len() + tail.len() + pdu.len();
    let mut v = hdr(true, true, lt, gl).to_vec();
    v.extend_from_slice(&first_id.to_be_bytes());
    v.extend_from_slice(label);
    v.extend_from_slice(tail);
    v.extend_from_slice(pdu);
    v
}
fn hb_mid(fid: u8, data: &[u8]) -> Vec<u8> {
    let mut v = hdr(false, false, 3, 1 + data.len()).to_vec();
    v.push(fid);
    v.extend_from_slice(data);
    v
}
fn hb_end(fid: u8, data: &[u8], crc: u32) -> Vec<u8> {
    let mut v = hdr(false, true, 3, 1 + data.len() + 4).to_vec();
    v.push(fid);
    v.extend_from_slice(data);
    v.extend_from_slice(&crc.to_be_bytes());
    v
}

/// label type bits and wire bytes of a label
fn lt_of(label: &Label) -> (u8, Vec<u8>) {
    match label {
        Label::SixBytesLabel(l) => (0, l.to_vec()),
        Label::ThreeBytesLabel(l) => (1, l.to_vec()),
        Label::Broadcast => (2, vec![]),
        Label::ReUse => (3, vec![]),
    }
}

#[derive(Clone, Copy, PartialEq, Debug)]
enum Split {
    Max,
    Random,
    Tiny,
    ZeroFirstCrcOnlyEnd,
}

/// fragment `spec.pdu` by hand; `crc` is placed in the end fragment
fn hb_fragments(rng: &mut Rng, spec: &Spec, total_len: u16, crc: u32, split: Split) -> Vec<Vec<u8>> {
    let (lt, label) = lt_of(&spec.label);
    let tail = spec.tail();
    let pdu = &spec.pdu;
    let max_first = 4095 - (3 + 2 + label.len() + tail.len());
    let a0 = match split {
        Split::Max => max_first.min(pdu.len()),
        Split::Random => rng.below(max_first.min(pdu.len()) + 1),
        Split::Tiny => 1.min(pdu.len()),
        Split::ZeroFirstCrcOnlyEnd => 0,
    };
    let mut out = vec![hb_first(spec.frag_id, total_len, spec.first_id(), lt, &label, &tail, &pdu[..a0])];
    let mut sent = a0;
    loop {
        let rem = pdu.len() - sent;
        let end_ok = rem <= 4090;
        let go_end = match split {
            Split::Max => end_ok,
            Split::Random => end_ok && (rem == 0 || rng.chance(1, 3)),
            Split::Tiny => rem <= 1,
            Split::ZeroFirstCrcOnlyEnd => rem == 0,
        };
        if go_end {
            out.push(hb_end(spec.frag_id, &pdu[sent..], crc));
            break;
        }
        let n = match split {
            Split::Max | Split::ZeroFirstCrcOnlyEnd => rem.min(4094),
            Split::Random => rng.range(1, rem.min(4094)),
            Split::Tiny => {
                if pdu.len() > 600 {
                    rem.min(4094).min(rng.range(1, 4094))
                } else {
                    1
                }
            }
        };
        out.push(hb_mid(spec.frag_id, &pdu[sent..sent + n]));
        sent += n;
    }
    out
}

fn expect_fragmented(r: Result<(DecapStatus, usize), (DecapError, usize)>, pkt_len: usize, what: &str) {
    match r {
        Ok((DecapStatus::FragmentedPkt(_), n)) => assert_eq!(n, pkt_len, "{what}"),
        Ok((o, _)) => panic!("{what}: expected FragmentedPkt, got {}", o.to_str()),
        Err((e, _)) => panic!("{what}: expected FragmentedPkt, got error {e:?}"),
    }
}

/// feed the fragments; all but the last must be accepted; returns the result of the last one
fn feed(dec: &mut Dec, pkts: &[Vec<u8>], what: &str) -> Result<(DecapStatus, usize), (DecapError, usize)> {
    for p in &pkts[..pkts.len() - 1] {
        // sometimes with following bytes in the buffer
        let r = dec.decap(p);
        expect_fragmented(r, p.len(), what);
    }
    dec.decap(pkts.last().unwrap())
}

fn wrong_crcs(spec: &Spec, total_len: u16, wire_label: &[u8], resolved: &[u8], good: u32) -> Vec<(&'static str, u32)> {
    let pdu = &spec.pdu;
    let mut msg = vec![];
    msg.extend_from_slice(&total_len.to_be_bytes());
    msg.extend_from_slice(&spec.ptype.to_be_bytes());
    msg.extend_from_slice(wire_label);
    msg.extend_from_slice(pdu);
    // reflected CRC-32 (IEEE)
    let mut ieee = 0xFFFF_FFFFu32;
    for b in &msg {
        ieee ^= *b as u32;
        for _ in 0..8 {
            ieee = if ieee & 1 != 0 { (ieee >> 1) ^ 0xEDB8_8320 } else { ieee >> 1 };
        }
    }
    let mut v = vec![
        ("plus one", good.wrapping_add(1)),
        ("minus one", good.wrapping_sub(1)),
        ("final xor", !good),
        ("byte swapped", good.swap_bytes()),
        ("bit reversed", good.reverse_bits()),
        ("ieee", !ieee),
        ("ieee no xorout", ieee),
        ("init zero", ref_run(0, &msg)),
        ("without header", ref_run(0xFFFF_FFFF, &msg[4..])),
        ("pdu only", ref_run(0xFFFF_FFFF, pdu)),
        ("ptype before total", {
            let mut c = ref_run(0xFFFF_FFFF, &spec.ptype.to_be_bytes());
            c = ref_run(c, &total_len.to_be_bytes());
            c = ref_run(c, wire_label);
            ref_run(c, pdu)
        }),
        ("little endian fields", {
            let mut c = ref_run(0xFFFF_FFFF, &total_len.to_le_bytes());
            c = ref_run(c, &spec.ptype.to_le_bytes());
            c = ref_run(c, wire_label);
            ref_run(c, pdu)
        }),
        ("label after pdu", {
            let mut c = ref_run(0xFFFF_FFFF, &total_len.to_be_bytes());
            c = ref_run(c, &spec.ptype.to_be_bytes());
            c = ref_run(c, pdu);
            ref_run(c, wire_label)
        }),
        ("first ext id as ptype", ref_crc(total_len, spec.first_id(), wire_label, pdu)),
        ("extensions included", {
            let mut c = ref_run(0xFFFF_FFFF, &total_len.to_be_bytes());
            c = ref_run(c, &spec.first_id().to_be_bytes());
            c = ref_run(c, wire_label);
            c = ref_run(c, &spec.tail());
            ref_run(c, pdu)
        }),
        // label re-use: the resolved label must NOT be in the CRC; no re-use: it must be
        ("other label choice", {
            if wire_label.is_empty() {
                ref_crc(total_len, spec.ptype, resolved, pdu)
            } else {
                ref_crc(total_len, spec.ptype, &[], pdu)
            }
        }),
        ("zero", 0),
        ("ones", 0xFFFF_FFFF),
    ];
    for k in 0..32 {
        v.push(("bit flip", good ^ (1 << k)));
    }
    v.retain(|(_, c)| *c != good);
    v
}

// ---------------------------------------------------------------------------------------------
// 3. Hand-built fragments: the decapsulator accepts exactly the reference CRC
// ---------------------------------------------------------------------------------------------
#[derive(Default, Debug)]
struct HbStats {
    pdus: u64,
    accepted: u64,
    rejected_crc: u64,
    reuse: u64,
    ext: u64,
    slots_seen: u64,
    frags: u64,
}

fn hb_spec(rng: &mut Rng, len: usize, frag_id: u8, allow_reuse: bool) -> Spec {
    let label = match rng.below(if allow_reuse { 7 } else { 5 }) {
        0 => Label::Broadcast,
        1 => Label::ThreeBytesLabel([0, 0, 0]),
        2 => Label::ThreeBytesLabel(rng.bytes(3).try_into().unwrap()),
        3 => {
            let mut l = [0u8; 6];
            l[rng.below(6)] = 1 + rng.below(255) as u8;
            Label::SixBytesLabel(l)
        }
        4 => {
            let mut l: [u8; 6] = rng.bytes(6).try_into().unwrap();
            l[0] |= 1;
            Label::SixBytesLabel(l)
        }
        _ => Label::ReUse,
    };
    let (ptype, exts) = match rng.below(6) {
        0 => (gen_ptype(rng), gen_exts(rng, None)),
        1 => {
            let fid = 0x20 + rng.below(9) as u16;
            (fid, gen_exts(rng, Some(fid)))
        }
        _ => (gen_ptype(rng), vec![]),
    };
    Spec {
        pdu: rng.bytes(len),
        ptype,
        label,
        exts,
        frag_id,
    }
}

/// One PDU, hand-fragmented: wrong CRCs are refused with ErrorCrc, the right one is delivered.
fn hb_one(rng: &mut Rng, dec: &mut Dec, spec: &Spec, split: Split, n_wrong: usize, st: &mut HbStats, storage_len: usize) {
    let (lt, wire_label) = lt_of(&spec.label);
    // label re-use needs a label at the receiver: a complete packet before
    let pre_label: Option<Label> = if lt == 3 {
        Some(if rng.chance(1, 2) {
            Label::ThreeBytesLabel([0, 0, 0])
        } else {
            Label::SixBytesLabel([9, 8, 7, 6, 5, 4])
        })
    } else {
        None
    };
    let resolved = pre_label.unwrap_or(spec.label);
    let preamble = pre_label.map(|l| {
        let (plt, pl) = lt_of(&l);
        hb_complete(0x0800, plt, &pl, &[], b"")
    });
    let total_len = (spec.pdu.len() + 2 + wire_label.len()) as u16;
    assert!(spec.pdu.len() + 2 + wire_label.len() <= 65535);
    let good = ref_crc(total_len, spec.ptype, &wire_label, &spec.pdu);
    let mut wrong = wrong_crcs(spec, total_len, &wire_label, resolved.get_bytes(), good);
    // keep a random subset (always keep the label-choice and the extension ones)
    while wrong.len() > n_wrong {
        let i = rng.below(wrong.len());
        if wrong[i].0 == "other label choice" || wrong[i].0 == "first ext id as ptype" || wrong[i].0 == "extensions included" {
            if wrong.len() <= 3 {
                break;
            }
            continue;
        }
        wrong.swap_remove(i);
    }
    let mut send_pre = |dec: &mut Dec| {
        if let Some(p) = &preamble {
            match dec.decap(p) {
                Ok((DecapStatus::CompletedPkt(buf, _), _)) => dec.provision_storage(buf).unwrap(),
                other => panic!("preamble refused: {:?}", other.map(|(s, _)| s.to_str().to_string())),
            }
        }
    };
    for (name, bad) in &wrong {
        send_pre(dec);
        let pk = hb_fragments(rng, spec, total_len, *bad, split);
        st.frags += pk.len() as u64;
        match feed(dec, &pk, name) {
            Err((DecapError::ErrorCrc, n)) => assert_eq!(n, pk.last().unwrap().len()),
            Ok((s, _)) => panic!(
                "wrong CRC '{name}' ({bad:#010x}, good {good:#010x}) accepted: {} (pdu_len {}, label {:?}, ptype {:#x})",
                s.to_str(),
                spec.pdu.len(),
                spec.label,
                spec.ptype
            ),
            Err((e, _)) => panic!("wrong CRC '{name}': expected ErrorCrc, got {e:?}"),
        }
        st.rejected_crc += 1;
    }
    send_pre(dec);
    let pk = hb_fragments(rng, spec, total_len, good, split);
    st.frags += pk.len() as u64;
    match feed(dec, &pk, "good") {
        Ok((DecapStatus::CompletedPkt(buf, md), n)) => {
            assert_eq!(n, pk.last().unwrap().len());
            assert_eq!(buf.len(), storage_len);
            assert_eq!(&buf[..spec.pdu.len()], &spec.pdu[..]);
            assert_eq!(md, DecapMetadata::new(spec.pdu.len(), spec.ptype, resolved, spec.rx_exts()));
            dec.provision_storage(buf).unwrap();
        }
        Ok((s, _)) => panic!("good CRC: {}", s.to_str()),
        Err((e, _)) => panic!(
            "reference CRC {good:#010x} refused with {e:?} (pdu_len {}, label {:?}, ptype {:#x}, exts {:?}, split {split:?})",
            spec.pdu.len(),
            spec.label,
            spec.ptype,
            spec.exts
        ),
    }
    st.accepted += 1;
    st.pdus += 1;
    if lt == 3 {
        st.reuse += 1;
    }
    if !spec.exts.is_empty() {
        st.ext += 1;
    }
}

#[test]
fn c12_handbuilt_all_slot_counts() {
    let mut rng = Rng::new(base_seed() ^ 0x66);
    let mut st = HbStats::default();
    for slots in 1..=256usize {
        for rep in 0..(2 * scale()) {
            let len = if rep % 2 == 0 { rng.range(0, 40) } else { rng.range(0, 600) };
            let storage_len = rng.pick(&[len, len + 1, len + 100, 65536]);
            let n_prov = rng.pick(&[1usize, 2, slots + 2]);
            let mut dec = mk_dec(slots, storage_len.min(len), storage_len, n_prov);
            let fid = rng.next() as u8;
            let spec = hb_spec(&mut rng, len, fid, true);
            let split = rng.pick(&[Split::Max, Split::Random, Split::Tiny, Split::ZeroFirstCrcOnlyEnd]);
            hb_one(&mut rng, &mut dec, &spec, split, 6, &mut st, storage_len);
            // a second PDU on the same decapsulator, same frag id, after the errors
            let len2 = rng.range(0, len.max(1)).min(len);
            let spec2 = hb_spec(&mut rng, len2, spec.frag_id, true);
            hb_one(&mut rng, &mut dec, &spec2, Split::Random, 3, &mut st, storage_len);
        }
        st.slots_seen += 1;
    }
    println!("[C12 handbuilt_all_slot_counts] {st:?}");
}

#[test]
fn c12_handbuilt_corner_lengths() {
    let mut rng = Rng::new(base_seed() ^ 0x77);
    let mut st = HbStats::default();
    let lens = corner_pdu_lens();
    for (i, &len) in lens.iter().enumerate() {
        let reps = if len > 10000 { 1 } else { 2 * scale() };
        for _ in 0..reps {
            // total length must fit: with a 6 bytes label the PDU is at most 65527 bytes
            let fid = rng.next() as u8;
            let mut spec = hb_spec(&mut rng, len, fid, true);
            let (_, wl) = lt_of(&spec.label);
            if len + 2 + wl.len() > 65535 {
                spec.label = if rng.chance(1, 2) { Label::Broadcast } else { Label::ReUse };
            }
            let storage_len = rng.pick(&[len, len + 1, 65535usize.max(len), 65536, 70000, 140000]);
            let slots = rng.pick(&[1usize, 2, 8, 256]);
            let mut dec = mk_dec(slots, len, storage_len, rng.range(1, 2));
            let split = [Split::Max, Split::Random, Split::Tiny, Split::ZeroFirstCrcOnlyEnd][i % 4];
            let n_wrong = if len > 10000 { 3 } else { 8 };
            hb_one(&mut rng, &mut dec, &spec, split, n_wrong, &mut st, storage_len);
        }
    }
    // the three label lengths at their largest PDU
    for (label, len) in [
        (Label::Broadcast, 65533usize),
        (Label::ReUse, 65533),
        (Label::ThreeBytesLabel([0, 0, 0]), 65530),
        (Label::SixBytesLabel([0, 0, 0, 0, 0, 1]), 65527),
    ] {
        let spec = Spec {
            pdu: rng.bytes(len),
            ptype: 0x0600,
            label,
            exts: vec![],
            frag_id: 0xFF,
        };
        let mut dec = mk_dec(1, len, len, 1);
        hb_one(&mut rng, &mut dec, &spec, Split::Max, 4, &mut st, len);
    }
    println!("[C12 handbuilt_corner_lengths] {st:?}");
}

#[test]
fn c12_handbuilt_total_length_sweep() {
    // every total length 2..=65535 as a real reassembly (broadcast label, PDU = total - 2), the
    // reference CRC is carried incrementally. Strided in debug.
    let mut rng = Rng::new(base_seed() ^ 0x88);
    let big = rng.bytes(65533);
    let mut dec = mk_dec(1, 65533, 65533, 1);
    let mut cases = 0u64;
    let ptype = 0x0600u16;
    for total in 2..=65535usize {
        let len = total - 2;
        let corner = len < 64 || (4080..4110).contains(&len) || len > 65500;
        let doit = corner || if cfg!(debug_assertions) { total % 211 == 0 } else { total % 5 == 0 };
        if !doit {
            continue;
        }
        let spec = Spec {
            pdu: big[..len].to_vec(),
            ptype,
            label: Label::Broadcast,
            exts: vec![],
            frag_id: (total % 256) as u8,
        };
        let good = ref_crc(total as u16, ptype, &[], &spec.pdu);
        let split = [Split::Max, Split::Random][total % 2];
        for crc in [good ^ (1 << (total % 32)), good] {
            let pk = hb_fragments(&mut rng, &spec, total as u16, crc, split);
            match feed(&mut dec, &pk, "sweep") {
                Ok((DecapStatus::CompletedPkt(buf, md), _)) => {
                    assert_eq!(crc, good, "wrong CRC accepted, total {total}");
                    assert_eq!(md.pdu_len(), len);
                    assert_eq!(&buf[..len], &spec.pdu[..]);
                    dec.provision_storage(buf).unwrap();
                }
                Err((DecapError::ErrorCrc, _)) => assert_ne!(crc, good, "good CRC refused, total {total}"),
                Ok((s, _)) => panic!("total {total}: {}", s.to_str()),
                Err((e, _)) => panic!("total {total}: {e:?}"),
            }
            cases += 1;
        }
    }
    println!("[C12 handbuilt_total_length_sweep] {cases} reassemblies");
}

#[test]
fn c12_handbuilt_too_long_never_delivered() {
    // PDUs whose total length does not fit in 16 bits can not be valid: whatever the (wrapped)
    // total length and CRC, nothing may be delivered
    let mut rng = Rng::new(base_seed() ^ 0x99);
    let mut cases = 0;
    for &len in &[65534usize, 65535, 65536, 65540, 70000] {
        for label in [Label::Broadcast, Label::ThreeBytesLabel([1, 2, 3]), Label::SixBytesLabel([1, 2, 3, 4, 5, 6])] {
            let (_, wl) = lt_of(&label);
            let spec = Spec {
                pdu: rng.bytes(len),
                ptype: 0x0800,
                label,
                exts: vec![],
                frag_id: 3,
            };
            let wrapped = ((len + 2 + wl.len()) & 0xFFFF) as u16;
            for tl in [wrapped, 0xFFFF, wrapped.wrapping_add(0x8000)] {
                let crc = ref_crc(tl, spec.ptype, &wl, &spec.pdu);
                let mut dec = mk_dec(2, 140000, 140000, 2);
                let pk = hb_fragments(&mut rng, &spec, tl, crc, Split::Max);
                let mut delivered = false;
                for p in &pk {
                    if let Ok((DecapStatus::CompletedPkt(..), _)) = dec.decap(p) {
                        delivered = true;
                    }
                }
                assert!(!delivered, "PDU of {len} bytes delivered (total length field {tl})");
                cases += 1;
            }
        }
    }
    println!("[C12 handbuilt_too_long_never_delivered] {cases} cases");
}

#[test]
fn c12_handbuilt_memory_corners() {
    // free list empty / exactly full, storage smaller than the PDU, followed by valid traffic
    let mut rng = Rng::new(base_seed() ^ 0xAA);
    let mut cases = 0;
    for slots in [1usize, 2, 3, 16, 256] {
        // (a) one storage only, two reassemblies with different slots: the second is refused,
        //     the first still completes with the right CRC
        let mut dec = mk_dec(slots, 10, 50, 1);
        let a = hb_spec(&mut rng, 40, 0, false);
        let ta = (40 + 2 + lt_of(&a.label).1.len()) as u16;
        let ca = ref_crc(ta, a.ptype, &lt_of(&a.label).1, &a.pdu);
        let pa = hb_fragments(&mut rng, &a, ta, ca, Split::Tiny);
        expect_fragmented(dec.decap(&pa[0]), pa[0].len(), "a first");
        if slots > 1 {
            let b = hb_spec(&mut rng, 30, 1, false);
            let tb = (30 + 2 + lt_of(&b.label).1.len()) as u16;
            let pb = hb_fragments(&mut rng, &b, tb, 0, Split::Tiny);
            match dec.decap(&pb[0]) {
                Err((DecapError::ErrorMemory(DecapMemoryError::StorageUnderflow), _)) => {}
                other => panic!("expected StorageUnderflow: {:?}", other.map(|(s, _)| s.to_str().to_string())),
            }
            // label was forgotten by the receiver: harmless for a, whose context is stored
        }
        // complete packet while the free list is empty
        match dec.decap(&hb_complete(0x0800, 2, &[], &[], b"abc")) {
            Err((DecapError::ErrorMemory(DecapMemoryError::StorageUnderflow), _)) => {}
            other => panic!("expected StorageUnderflow: {:?}", other.map(|(s, _)| s.to_str().to_string())),
        }
        for p in &pa[1..pa.len() - 1] {
            expect_fragmented(dec.decap(p), p.len(), "a mid");
        }
        match dec.decap(pa.last().unwrap()) {
            Ok((DecapStatus::CompletedPkt(buf, md), _)) => {
                assert_eq!(&buf[..40], &a.pdu[..]);
                assert_eq!(md.pdu_len(), 40);
                dec.provision_storage(buf).unwrap();
            }
            other => panic!("a not delivered: {:?}", other.map(|(s, _)| s.to_str().to_string())),
        }
        cases += 1;

        // (b) free list exactly full while a reassembly is pending: a CRC error hands the
        //     storage to the caller inside the error; the next PDU is delivered all the same
        let mut dec = mk_dec(slots, 10, 50, slots + 2);
        expect_fragmented(dec.decap(&pa[0]), pa[0].len(), "b first");
        dec.provision_storage(vec![0u8; 50].into_boxed_slice()).unwrap(); // full again
        let mut bad = pa.clone();
        let l = bad.len() - 1;
        let n = bad[l].len();
        bad[l][n - 1] ^= 0x10;
        for p in &bad[1..l] {
            expect_fragmented(dec.decap(p), p.len(), "b mid");
        }
        match dec.decap(&bad[l]) {
            Err((DecapError::ErrorMemory(DecapMemoryError::StorageOverflow(_)), _)) | Err((DecapError::ErrorCrc, _)) => {}
            other => panic!("b: {:?}", other.map(|(s, _)| s.to_str().to_string())),
        }
        match feed(&mut dec, &pa, "b good") {
            Ok((DecapStatus::CompletedPkt(buf, _), _)) => assert_eq!(&buf[..40], &a.pdu[..]),
            other => panic!("b good: {:?}", other.map(|(s, _)| s.to_str().to_string())),
        }
        cases += 1;

        // (c) storage smaller than the PDU: refused somewhere, never delivered; a PDU that fits is
        //     delivered afterwards with the same frag id
        for small in [0usize, 1, 10, 39] {
            let mut dec = mk_dec(slots, small, small, 2);
            let mut delivered = false;
            let mut refused = false;
            for p in &pa {
                match dec.decap(p) {
                    Ok((DecapStatus::CompletedPkt(..), _)) => delivered = true,
                    Err((DecapError::ErrorSizePduBuffer, _)) => refused = true,
                    _ => {}
                }
            }
            assert!(!delivered && refused);
            let c = Spec {
                pdu: rng.bytes(small),
                ptype: 0xFFFF,
                label: Label::ThreeBytesLabel([0, 0, 0]),
                exts: vec![],
                frag_id: a.frag_id,
            };
            let tc = (small + 5) as u16;
            let cc = ref_crc(tc, 0xFFFF, &[0, 0, 0], &c.pdu);
            let pc = hb_fragments(&mut rng, &c, tc, cc, Split::Random);
            match feed(&mut dec, &pc, "c fits") {
                Ok((DecapStatus::CompletedPkt(buf, md), _)) => {
                    assert_eq!(&buf[..small], &c.pdu[..]);
                    assert_eq!(md.label(), Label::ThreeBytesLabel([0, 0, 0]));
                }
                other => panic!("c fits (storage {small}): {:?}", other.map(|(s, _)| s.to_str().to_string())),
            }
            cases += 1;
        }
    }
    println!("[C12 handbuilt_memory_corners] {cases} scenarios");
}

// ---------------------------------------------------------------------------------------------
// 4. Encapsulator output, damaged on the way: ErrorCrc, then valid traffic goes through
// ---------------------------------------------------------------------------------------------
fn encap_all(rng: &mut Rng, enc: &mut Encapsulator<DefaultCrc>, spec: &Spec, first_buf: usize) -> Option<Vec<Vec<u8>>> {
    let mut out = vec![];
    let mut buf = vec![0u8; first_buf];
    let md = EncapMetadata::new(spec.ptype, spec.label);
    let r = if spec.exts.is_empty() {
        enc.encap(&spec.pdu, spec.frag_id, md, &mut buf)
    } else {
        enc.encap_ext(&spec.pdu, spec.frag_id, md, &mut buf, spec.api_exts())
    };
    let mut ctx = match r {
        Ok(EncapStatus::CompletedPkt(n)) => {
            out.push(buf[..n as usize].to_vec());
            return Some(out);
        }
        Ok(EncapStatus::FragmentedPkt(n, c)) => {
            out.push(buf[..n as usize].to_vec());
            c
        }
        Err(_) => return None,
    };
    loop {
        let sz = match rng.below(5) {
            0 => rng.range(4, 30),
            1 => rng.range(30, 500),
            2 => 4097,
            3 => rng.range(4090, 9000),
            _ => rng.range(8, 70000),
        };
        let mut buf = vec![0u8; sz];
        match enc.encap_frag(&spec.pdu, &ctx, &mut buf) {
            Ok(EncapStatus::CompletedPkt(n)) => {
                out.push(buf[..n as usize].to_vec());
                return Some(out);
            }
            Ok(EncapStatus::FragmentedPkt(n, c)) => {
                out.push(buf[..n as usize].to_vec());
                ctx = c;
            }
            Err(EncapError::ErrorSizeBuffer) => {}
            Err(e) => panic!("{e:?}"),
        }
    }
}

#[test]
fn c12_e2e_damaged_then_valid() {
    let mut rng = Rng::new(base_seed() ^ 0xBB);
    let corner = corner_pdu_lens();
    let mut n_cases = 0u64;
    let mut n_reuse = 0u64;
    let mut n_kinds = [0u64; 8];
    for it in 0..400 * scale() {
        let len = match rng.below(8) {
            0 => rng.pick(&corner).max(4),
            1 => rng.range(4000, 9000),
            2 if it % 8 == 0 => rng.range(9000, 65533),
            _ => rng.range(4, 400),
        };
        let slots = rng.pick(&[1usize, 2, 7, 256]);
        let storage = rng.pick(&[len, len + 1, 65536usize.max(len)]);
        let mut dec = mk_dec(slots, len, storage, 2);
        let mut enc = Encapsulator::new(DefaultCrc {});
        let fid = rng.next() as u8;
        let mut spec = hb_spec(&mut rng, len, fid, false);
        if len + 2 + spec.label.len() > 65535 {
            spec.label = Label::Broadcast;
        }
        let (_, wl) = lt_of(&spec.label);
        // label re-use on the first fragment: a complete packet with the same label before
        let want_reuse = spec.label != Label::Broadcast && rng.chance(1, 2);
        let mut stream: Vec<Vec<u8>> = vec![];
        if want_reuse {
            let pre = Spec {
                pdu: b"pre".to_vec(),
                ptype: 0x0800,
                label: spec.label,
                exts: vec![],
                frag_id: 0,
            };
            stream.extend(encap_all(&mut rng, &mut enc, &pre, 100).unwrap());
        }
        let hdr_len = 4 + spec.label.len() + spec.tail().len() + 3;
        let first_buf = if len > 4200 && rng.chance(1, 2) {
            rng.range(4090, 70000)
        } else {
            rng.range(hdr_len, hdr_len + len - 4)
        };
        let Some(pk) = encap_all(&mut rng, &mut enc, &spec, first_buf) else {
            panic!("encap refused: {spec:?} first_buf {first_buf}")
        };
        if pk.len() < 2 {
            continue;
        }
        let n_pre = stream.len();
        stream.extend(pk);
        let used_reuse = (u16::from_be_bytes([stream[n_pre][0], stream[n_pre][1]]) >> 12) & 3 == 3;
        assert_eq!(used_reuse, want_reuse);
        let (wire_label, total_len) = if used_reuse {
            n_reuse += 1;
            (vec![], (len + 2) as u16)
        } else {
            (wl.clone(), (len + 2 + wl.len()) as u16)
        };
        let good = ref_crc(total_len, spec.ptype, &wire_label, &spec.pdu);
        let last = stream.len() - 1;
        let ln = stream[last].len();
        assert_eq!(
            u32::from_be_bytes(stream[last][ln - 4..].try_into().unwrap()),
            good,
            "CRC of the end fragment: len {len} label {:?} ptype {:#x} exts {:?} reuse {used_reuse} first_buf {first_buf}",
            spec.label,
            spec.ptype,
            spec.exts
        );

        // damage
        let mut bad = stream.clone();
        let kind = rng.below(6);
        let first = n_pre;
        let applied = match kind {
            0 => {
                // one bit of the CRC
                let b = rng.below(32);
                bad[last][ln - 4 + b / 8] ^= 1 << (b % 8);
                true
            }
            1 => {
                // one bit of the PDU bytes, in any fragment that carries some
                let cands: Vec<usize> = (first..=last)
                    .filter(|i| {
                        let p = &bad[*i];
                        if *i == first {
                            p.len() > 2 + 3 + 2 + wire_label.len() + spec.tail().len()
                        } else if *i == last {
                            p.len() > 7
                        } else {
                            true
                        }
                    })
                    .collect();
                if cands.is_empty() {
                    false
                } else {
                    let i = rng.pick(&cands);
                    let lo = if i == first { 2 + 3 + 2 + wire_label.len() + spec.tail().len() } else { 3 };
                    let hi = if i == last { bad[i].len() - 4 } else { bad[i].len() };
                    let k = rng.range(lo, hi - 1);
                    bad[i][k] ^= 1 << rng.below(8);
                    true
                }
            }
            2 => {
                // protocol type of the first fragment (no extension): another one >= 0x600
                if spec.exts.is_empty() {
                    let np = if spec.ptype == 0xFFFF { 0x0600 } else { spec.ptype + 1 };
                    bad[first][5..7].copy_from_slice(&np.to_be_bytes());
                    true
                } else {
                    false
                }
            }
            3 => {
                // label of the first fragment
                if !wire_label.is_empty() {
                    bad[first][7 + rng.below(wire_label.len())] ^= 0x80;
                    // not the forbidden label
                    bad[first][7..7 + wire_label.len()].iter().any(|b| *b != 0)
                } else {
                    false
                }
            }
            4 => {
                // two fragments exchanged
                if last - first >= 3 && [&bad[first + 1][3..], &bad[first + 2][3..]].concat() != [&bad[first + 2][3..], &bad[first + 1][3..]].concat() {
                    bad.swap(first + 1, first + 2);
                    true
                } else {
                    false
                }
            }
            _ => {
                // CRC of another construction
                let resolved = spec.label.get_bytes().to_vec();
                let w = wrong_crcs(&spec, total_len, &wire_label, &resolved, good);
                let (_, c) = rng.pick(&w);
                bad[last][ln - 4..].copy_from_slice(&c.to_be_bytes());
                true
            }
        };
        if !applied {
            continue;
        }
        n_kinds[kind] += 1;
        for (i, p) in bad.iter().enumerate() {
            let r = dec.decap(p);
            if i < n_pre {
                match r {
                    Ok((DecapStatus::CompletedPkt(buf, _), _)) => dec.provision_storage(buf).unwrap(),
                    _ => panic!("preamble"),
                }
            } else if i < last {
                expect_fragmented(r, p.len(), "damaged stream");
            } else {
                match r {
                    Err((DecapError::ErrorCrc, n)) => assert_eq!(n, p.len()),
                    Ok((s, _)) => panic!("damage kind {kind} accepted: {} (len {len}, label {:?}, reuse {used_reuse})", s.to_str(), spec.label),
                    Err((e, _)) => panic!("damage kind {kind}: expected ErrorCrc, got {e:?}"),
                }
            }
        }
        // the same PDU again, undamaged
        for (i, p) in stream.iter().enumerate() {
            let r = dec.decap(p);
            if i < n_pre {
                match r {
                    Ok((DecapStatus::CompletedPkt(buf, _), _)) => dec.provision_storage(buf).unwrap(),
                    _ => panic!("preamble"),
                }
            } else if i < last {
                expect_fragmented(r, p.len(), "valid stream after the error");
            } else {
                match r {
                    Ok((DecapStatus::CompletedPkt(buf, md), _)) => {
                        assert_eq!(&buf[..len], &spec.pdu[..]);
                        assert_eq!(md, DecapMetadata::new(len, spec.ptype, spec.label, spec.rx_exts()));
                    }
                    Ok((s, _)) => panic!("{}", s.to_str()),
                    Err((e, _)) => panic!("valid PDU after a CRC error refused: {e:?}"),
                }
            }
        }
        n_cases += 1;
    }
    println!("[C12 e2e_damaged_then_valid] {n_cases} damaged PDUs ({n_reuse} with label re-use), kinds {n_kinds:?}");
}

// ---------------------------------------------------------------------------------------------
// 5. Interleaved hand-built reassemblies with slot collisions, restarts
// ---------------------------------------------------------------------------------------------
#[test]
fn c12_interleaved_restarts_and_collisions() {
    let mut rng = Rng::new(base_seed() ^ 0xCC);
    let mut delivered = 0u64;
    let mut dropped = 0u64;
    for _ in 0..300 * scale() {
        let slots = rng.pick(&[1usize, 2, 3, 4, 16, 255, 256]);
        let storage = 700;
        let mut dec = mk_dec(slots, storage, storage, slots + 2);
        // k PDUs, arbitrary frag ids (collisions and identical ids allowed)
        let k = rng.range(2, 6);
        let mut specs = vec![];
        let mut pkts: Vec<Vec<Vec<u8>>> = vec![];
        for _ in 0..k {
            let fid = if rng.chance(1, 2) { rng.below(4) as u8 } else { rng.next() as u8 };
            let l = rng.range(0, 600);
            let s = hb_spec(&mut rng, l, fid, false);
            let (_, wl) = lt_of(&s.label);
            let tl = (s.pdu.len() + 2 + wl.len()) as u16;
            let crc = ref_crc(tl, s.ptype, &wl, &s.pdu);
            let sp = rng.pick(&[Split::Random, Split::Tiny, Split::Max]);
            pkts.push(hb_fragments(&mut rng, &s, tl, crc, sp));
            specs.push(s);
        }
        // model of the receiver slots: slot -> (pdu index, next packet index)
        let mut slot: Vec<Option<(usize, usize)>> = vec![None; slots];
        let mut next = vec![0usize; k];
        loop {
            let cand: Vec<usize> = (0..k).filter(|i| next[*i] < pkts[*i].len()).collect();
            if cand.is_empty() {
                break;
            }
            let i = rng.pick(&cand);
            let j = next[i];
            next[i] += 1;
            let p = &pkts[i][j];
            let idx = specs[i].frag_id as usize % slots;
            let r = dec.decap(p);
            if j == 0 {
                // first fragment: takes the slot, whatever was there
                expect_fragmented(r, p.len(), "first");
                if slot[idx].is_some() {
                    dropped += 1;
                }
                slot[idx] = Some((i, 1));
            } else {
                // the reassembly in the slot must be the one of a PDU with this frag id, and this
                // packet must be its next one; otherwise the CRC (or an earlier check) refuses
                let alive = match slot[idx] {
                    Some((pi, _)) => specs[pi].frag_id == specs[i].frag_id,
                    None => false,
                };
                let in_order = matches!(slot[idx], Some((pi, nj)) if pi == i && nj == j);
                let is_end = j == pkts[i].len() - 1;
                match r {
                    Ok((DecapStatus::CompletedPkt(buf, md), _)) => {
                        assert!(alive && is_end);
                        // whatever was reassembled, a delivered PDU must carry the reference CRC
                        // of what is delivered: with distinct random PDUs only the in-order one can
                        let (_, wl) = lt_of(&md.label());
                        let tl = (md.pdu_len() + 2 + wl.len()) as u16;
                        let crc_rx = u32::from_be_bytes(p[p.len() - 4..].try_into().unwrap());
                        assert_eq!(crc_rx, ref_crc(tl, md.protocol_type(), &wl, &buf[..md.pdu_len()]), "delivered PDU does not match its CRC");
                        if in_order {
                            assert_eq!(&buf[..md.pdu_len()], &specs[i].pdu[..]);
                        }
                        delivered += 1;
                        slot[idx] = None;
                        dec.provision_storage(buf).unwrap();
                    }
                    Ok((DecapStatus::FragmentedPkt(_), _)) => {
                        assert!(alive && !is_end);
                        if let Some((pi, nj)) = slot[idx] {
                            // the packet went into reassembly pi: if it is not its own, it is now spoiled
                            slot[idx] = Some((pi, if in_order { nj + 1 } else { usize::MAX }));
                        }
                    }
                    Ok((DecapStatus::Padding, _)) => panic!("padding"),
                    Err((DecapError::ErrorMemory(DecapMemoryError::UndefinedId), _)) => {
                        assert!(!alive, "known frag id refused");
                    }
                    Err((_e, _)) => {
                        // CRC / total length / storage size: the reassembly is gone
                        assert!(alive && !in_order, "in-order packet refused: {_e:?}");
                        slot[idx] = None;
                        dropped += 1;
                    }
                }
            }
        }
    }
    println!("[C12 interleaved_restarts_and_collisions] delivered {delivered}, dropped/overwritten {dropped}");
    assert!(delivered > 100);
}

// ---------------------------------------------------------------------------------------------
// 6. Fuzzed traffic (mutated, dropped, duplicated, reordered packets): whatever happens, a PDU
//    delivered by an end fragment is the concatenation of the accepted fragments since the
//    accepted first fragment, and the CRC field of that end fragment is the reference CRC of
//    total length (of that first fragment) | protocol type | label (empty if re-use) | PDU.
// ---------------------------------------------------------------------------------------------
struct ShadowFirst {
    fid: u8,
    total_len: u16,
    lt: u8,
    label: Vec<u8>,
    ptype: u16,
    part: Vec<u8>,
}
/// independent parser of a first fragment, with the receiver knowledge of `Mgr`
fn shadow_parse_first(p: &[u8]) -> Option<ShadowFirst> {
    let h = u16::from_be_bytes([p[0], p[1]]);
    let lt = ((h >> 12) & 3) as u8;
    let gl = (h & 0xFFF) as usize;
    if p.len() < gl + 2 {
        return None;
    }
    let p = &p[..gl + 2];
    let ll = [6usize, 3, 0, 0][lt as usize];
    if gl < 3 + 2 + ll {
        return None;
    }
    let fid = p[2];
    let total_len = u16::from_be_bytes([p[3], p[4]]);
    let mut id = u16::from_be_bytes([p[5], p[6]]);
    let label = p[7..7 + ll].to_vec();
    let mut o = 7 + ll;
    while id < 0x600 {
        let hl = id >> 8;
        let (dl, fin) = if hl == 0 {
            match Mgr.is_mandatory_header_id_known(id) {
                MandatoryHeaderExt::Unknown => return None,
                MandatoryHeaderExt::Final(n) => (n as usize, true),
                MandatoryHeaderExt::NonFinal(n) => (n as usize, false),
            }
        } else {
            ([0usize, 0, 2, 4, 6, 8][hl as usize], false)
        };
        if o + dl > p.len() {
            return None;
        }
        o += dl;
        if fin {
            break;
        }
        if o + 2 > p.len() {
            return None;
        }
        id = u16::from_be_bytes([p[o], p[o + 1]]);
        o += 2;
    }
    Some(ShadowFirst {
        fid,
        total_len,
        lt,
        label,
        ptype: id,
        part: p[o..].to_vec(),
    })
}

#[test]
fn c12_fuzz_decap_invariant() {
    let mut rng = Rng::new(base_seed() ^ 0xDD);
    let (mut n_pk, mut n_mut, mut n_deliv, mut n_crc_err, mut n_other_err, mut n_undefined) = (0u64, 0u64, 0u64, 0u64, 0u64, 0u64);
    for _ in 0..3000 * scale() {
        let storage = 4000;
        let mut dec = mk_dec(256, storage, storage, 258);
        let k = rng.range(2, 6);
        let mut streams: Vec<Vec<Vec<u8>>> = vec![];
        for _ in 0..k {
            let fid = if rng.chance(2, 3) { rng.below(3) as u8 } else { rng.next() as u8 };
            let len = if rng.chance(1, 5) { rng.range(0, 3000) } else { rng.range(0, 120) };
            let sp = hb_spec(&mut rng, len, fid, true);
            let (lt, wl) = lt_of(&sp.label);
            let tl = (len + 2 + wl.len()) as u16;
            let crc = ref_crc(tl, sp.ptype, &wl, &sp.pdu);
            let split = rng.pick(&[Split::Random, Split::Random, Split::Tiny, Split::Max, Split::ZeroFirstCrcOnlyEnd]);
            let mut pk = hb_fragments(&mut rng, &sp, tl, crc, split);
            if lt == 3 || rng.chance(1, 6) {
                // a complete packet in front (gives the receiver a label)
                let l = if rng.chance(1, 2) { vec![0u8, 0, 0] } else { vec![7u8, 7, 7, 7, 7, 7] };
                let plt = if l.len() == 3 { 1 } else { 0 };
                pk.insert(0, hb_complete(0x0800, plt, &l, &[], b"hello"));
            }
            streams.push(pk);
        }
        // interleave, keeping the order inside each stream
        let mut seq: Vec<Vec<u8>> = vec![];
        let mut next = vec![0usize; k];
        loop {
            let cand: Vec<usize> = (0..k).filter(|i| next[*i] < streams[*i].len()).collect();
            if cand.is_empty() {
                break;
            }
            // bursts: keep the same stream with some probability so that clean reassemblies exist too
            let i = rng.pick(&cand);
            let burst = rng.range(1, 6);
            for _ in 0..burst {
                if next[i] < streams[i].len() {
                    seq.push(streams[i][next[i]].clone());
                    next[i] += 1;
                }
            }
        }
        // mutate
        let mut j = 0;
        while j < seq.len() {
            if rng.chance(1, 8) {
                n_mut += 1;
                match rng.below(6) {
                    0 => {
                        seq.remove(j);
                        continue;
                    }
                    1 => {
                        let c = seq[j].clone();
                        seq.insert(j, c);
                        j += 1;
                    }
                    2 if j + 1 < seq.len() => seq.swap(j, j + 1),
                    3 => {
                        // header bit
                        let b = rng.below(24.min(seq[j].len() * 8));
                        seq[j][b / 8] ^= 0x80 >> (b % 8);
                    }
                    4 => {
                        // truncate or extend the buffer
                        if rng.chance(1, 2) && seq[j].len() > 2 {
                            let n = rng.range(2, seq[j].len() - 1);
                            seq[j].truncate(n);
                        } else {
                            let ne = rng.below(5) + 1;
                            let extra = rng.bytes(ne);
                            seq[j].extend_from_slice(&extra);
                        }
                    }
                    _ => {
                        let b = rng.below(seq[j].len() * 8);
                        seq[j][b / 8] ^= 0x80 >> (b % 8);
                    }
                }
            }
            j += 1;
        }
        // run with the shadow reassembly
        struct Sh {
            first: ShadowFirst,
            bytes: Vec<u8>,
        }
        let mut shadow: Vec<Option<Sh>> = (0..256).map(|_| None).collect();
        let mut maybe_dropped = [false; 256];
        for p in &seq {
            n_pk += 1;
            if p.len() < 2 {
                continue;
            }
            let h = u16::from_be_bytes([p[0], p[1]]);
            let (s, e) = (h & 0x8000 != 0, h & 0x4000 != 0);
            let gl = (h & 0xFFF) as usize;
            let r = dec.decap(p);
            match (s, e) {
                (true, true) => {
                    if let Ok((DecapStatus::CompletedPkt(buf, _), _)) = r {
                        dec.provision_storage(buf).unwrap();
                    }
                }
                (true, false) => match r {
                    Ok((DecapStatus::FragmentedPkt(md), _)) => {
                        let f = shadow_parse_first(p).expect("first fragment accepted, but it is not parsable");
                        assert_eq!(md.protocol_type(), f.ptype);
                        if f.lt != 3 {
                            assert_eq!(md.label().get_bytes(), &f.label[..]);
                        }
                        let fid = f.fid as usize;
                        let bytes = f.part.clone();
                        shadow[fid] = Some(Sh { first: f, bytes });
                        maybe_dropped[fid] = false;
                    }
                    Ok((DecapStatus::CompletedPkt(..), _)) => panic!("first fragment delivered a PDU"),
                    _ => {
                        if p.len() > 2 {
                            maybe_dropped[p[2] as usize] = true;
                        }
                    }
                },
                (false, _) => {
                    if h & 0xF000 == 0 {
                        // padding pattern
                        continue;
                    }
                    let fid = if p.len() > 2 { p[2] as usize } else { 0 };
                    match r {
                        Ok((DecapStatus::FragmentedPkt(_), n)) => {
                            assert!(!e);
                            assert_eq!(n, gl + 2);
                            let sh = shadow[fid].as_mut().expect("intermediate accepted without a reassembly");
                            sh.bytes.extend_from_slice(&p[3..gl + 2]);
                        }
                        Ok((DecapStatus::CompletedPkt(buf, md), n)) => {
                            assert!(e);
                            assert_eq!(n, gl + 2);
                            let sh = shadow[fid].take().expect("end fragment delivered without a reassembly");
                            let mut bytes = sh.bytes;
                            bytes.extend_from_slice(&p[3..gl + 2 - 4]);
                            let crc_field = u32::from_be_bytes(p[gl + 2 - 4..gl + 2].try_into().unwrap());
                            assert_eq!(md.pdu_len(), bytes.len());
                            assert_eq!(&buf[..md.pdu_len()], &bytes[..], "delivered bytes");
                            let crc_label: &[u8] = if sh.first.lt == 3 { &[] } else { &sh.first.label };
                            assert_eq!(sh.first.total_len as usize, bytes.len() + 2 + crc_label.len(), "total length");
                            assert_eq!(md.protocol_type(), sh.first.ptype);
                            assert_eq!(
                                crc_field,
                                ref_crc(sh.first.total_len, sh.first.ptype, crc_label, &bytes),
                                "delivered although the CRC field is not the reference CRC"
                            );
                            n_deliv += 1;
                            dec.provision_storage(buf).unwrap();
                        }
                        Ok((DecapStatus::Padding, _)) => panic!("padding?"),
                        Err((DecapError::ErrorMemory(DecapMemoryError::UndefinedId), _)) => {
                            // only a rejected first fragment of this frag id may have removed it
                            assert!(shadow[fid].is_none() || maybe_dropped[fid], "pending reassembly unknown to the memory");
                            shadow[fid] = None;
                            n_undefined += 1;
                        }
                        Err((DecapError::ErrorGseLength, _)) | Err((DecapError::ErrorSizeBuffer, _)) => {
                            n_other_err += 1;
                        }
                        Err((er, _)) => {
                            if er == DecapError::ErrorCrc {
                                n_crc_err += 1;
                                // a refused CRC is really different from the reference
                                if let Some(sh) = &shadow[fid] {
                                    let mut bytes = sh.bytes.clone();
                                    bytes.extend_from_slice(&p[3..gl + 2 - 4]);
                                    let crc_field = u32::from_be_bytes(p[gl + 2 - 4..gl + 2].try_into().unwrap());
                                    let crc_label: &[u8] = if sh.first.lt == 3 { &[] } else { &sh.first.label };
                                    assert_ne!(crc_field, ref_crc(sh.first.total_len, sh.first.ptype, crc_label, &bytes), "reference CRC refused");
                                }
                            } else {
                                n_other_err += 1;
                            }
                            shadow[fid] = None;
                        }
                    }
                }
            }
        }
    }
    println!(
        "[C12 fuzz_decap_invariant] {n_pk} packets, {n_mut} mutations, {n_deliv} deliveries checked, {n_crc_err} CRC errors checked, {n_undefined} undefined ids, {n_other_err} other errors"
    );
    assert!(n_deliv > 200 && n_crc_err > 20);
}

// ---------------------------------------------------------------------------------------------
// 7. What the encapsulator and the decapsulator hand to the CRC calculator (spy calculator)
// ---------------------------------------------------------------------------------------------
use std::cell::RefCell;
use std::rc::Rc;
type CrcCall = (Vec<u8>, u16, u16, Vec<u8>);
#[derive(Clone)]
struct SpyCrc {
    log: Rc<RefCell<Vec<CrcCall>>>,
}
impl CrcCalculator for SpyCrc {
    fn calculate_crc32(&self, pdu: &[u8], protocol_type: u16, total_length: u16, label: &[u8]) -> u32 {
        self.log
            .borrow_mut()
            .push((pdu.to_vec(), protocol_type, total_length, label.to_vec()));
        DefaultCrc {}.calculate_crc32(pdu, protocol_type, total_length, label)
    }
}

#[test]
fn c12_spy_calculator_inputs() {
    let mut rng = Rng::new(base_seed() ^ 0xEE);
    let corner = corner_pdu_lens();
    let (mut n, mut n_reuse, mut n_ext) = (0u64, 0u64, 0u64);
    for it in 0..300 * scale() {
        let tx_log = Rc::new(RefCell::new(vec![]));
        let rx_log = Rc::new(RefCell::new(vec![]));
        let mut enc = Encapsulator::new(SpyCrc { log: tx_log.clone() });
        let len = match rng.below(6) {
            0 => rng.pick(&corner).max(4),
            1 if it % 6 == 0 => rng.range(9000, 65533),
            2 => rng.range(4000, 9000),
            _ => rng.range(4, 400),
        };
        let slots = rng.pick(&[1usize, 3, 256]);
        let storage = rng.pick(&[len, len + 1, 65536usize.max(len)]);
        let mut memory = SimpleGseMemory::new(slots, len, 0, 0);
        for _ in 0..2 {
            memory.provision_storage(vec![0u8; storage].into_boxed_slice()).unwrap();
        }
        let mut dec = Decapsulator::new(memory, SpyCrc { log: rx_log.clone() }, Mgr);
        let fid = rng.next() as u8;
        let mut spec = hb_spec(&mut rng, len, fid, false);
        if len + 2 + spec.label.len() > 65535 {
            spec.label = Label::Broadcast;
        }
        let want_reuse = spec.label != Label::Broadcast && rng.chance(1, 2);
        let mut stream: Vec<Vec<u8>> = vec![];
        let mut one = |enc: &mut Encapsulator<SpyCrc>, sp: &Spec, first_buf: usize, rng: &mut Rng, out: &mut Vec<Vec<u8>>| {
            let mut buf = vec![0u8; first_buf];
            let md = EncapMetadata::new(sp.ptype, sp.label);
            let r = if sp.exts.is_empty() {
                enc.encap(&sp.pdu, sp.frag_id, md, &mut buf)
            } else {
                enc.encap_ext(&sp.pdu, sp.frag_id, md, &mut buf, sp.api_exts())
            };
            let mut ctx = match r.unwrap() {
                EncapStatus::CompletedPkt(n) => {
                    out.push(buf[..n as usize].to_vec());
                    return;
                }
                EncapStatus::FragmentedPkt(n, c) => {
                    out.push(buf[..n as usize].to_vec());
                    c
                }
            };
            loop {
                let sz = rng.pick(&[5usize, 9, 40, 300, 4097, 5000, 70000]);
                let mut buf = vec![0u8; sz];
                match enc.encap_frag(&sp.pdu, &ctx, &mut buf) {
                    Ok(EncapStatus::CompletedPkt(n)) => {
                        out.push(buf[..n as usize].to_vec());
                        return;
                    }
                    Ok(EncapStatus::FragmentedPkt(n, c)) => {
                        out.push(buf[..n as usize].to_vec());
                        ctx = c;
                    }
                    Err(EncapError::ErrorSizeBuffer) => {}
                    Err(e) => panic!("{e:?}"),
                }
            }
        };
        if want_reuse {
            let pre = Spec {
                pdu: vec![],
                ptype: 0x0800,
                label: spec.label,
                exts: vec![],
                frag_id: 0,
            };
            one(&mut enc, &pre, 100, &mut rng, &mut stream);
        }
        let hdr_len = 4 + spec.label.len() + spec.tail().len() + 3;
        let first_buf = if len > 4200 && rng.chance(1, 2) { 70000 } else { rng.range(hdr_len, hdr_len + len - 4) };
        let n_pre = stream.len();
        one(&mut enc, &spec, first_buf, &mut rng, &mut stream);
        if stream.len() - n_pre < 2 {
            continue;
        }
        let (_, wl) = lt_of(&spec.label);
        let wire_label = if want_reuse { vec![] } else { wl };
        let expected: CrcCall = (
            spec.pdu.clone(),
            spec.ptype,
            (len + 2 + wire_label.len()) as u16,
            wire_label.clone(),
        );
        // the encapsulator asked for exactly one CRC, with the expected operands
        assert_eq!(tx_log.borrow().len(), 1);
        assert_eq!(tx_log.borrow()[0], expected, "operands given by the encapsulator");
        let last = stream.len() - 1;
        let ln = stream[last].len();
        assert_eq!(
            u32::from_be_bytes(stream[last][ln - 4..].try_into().unwrap()),
            ref_crc(expected.2, expected.1, &expected.3, &expected.0)
        );
        // all packets in one frame, followed by padding
        let mut frame: Vec<u8> = stream.concat();
        frame.extend_from_slice(&[0u8; 7]);
        let mut pos = 0;
        let mut got = None;
        while pos < frame.len() {
            match dec.decap(&frame[pos..]) {
                Ok((DecapStatus::CompletedPkt(buf, md), n)) => {
                    pos += n;
                    if md.pdu_len() == len && pos > stream[..n_pre].concat().len() {
                        got = Some((buf[..len].to_vec(), md));
                    }
                }
                Ok((_, n)) => pos += n,
                Err((e, _)) => panic!("{e:?}"),
            }
        }
        let (pdu, md) = got.expect("not delivered");
        assert_eq!(pdu, spec.pdu);
        assert_eq!(md, DecapMetadata::new(len, spec.ptype, spec.label, spec.rx_exts()));
        assert_eq!(rx_log.borrow().len(), 1);
        assert_eq!(rx_log.borrow()[0], expected, "operands given by the decapsulator");
        n += 1;
        if want_reuse {
            n_reuse += 1;
        }
        if !spec.exts.is_empty() {
            n_ext += 1;
        }
    }
    println!("[C12 spy_calculator_inputs] {n} fragmented PDUs ({n_reuse} with label re-use, {n_ext} with extensions)");
}
