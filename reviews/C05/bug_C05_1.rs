// C05 violation: decap panics (remainder by zero) on any fragment packet when the
// receiver memory was built with zero fragment slots: SimpleGseMemory::new(0, ..).
//
// Such a receiver is reachable through the public API only, is accepted by the
// constructor, and is functional: it decapsulates complete packets correctly (it has
// 0 + MIN_MARGIN = 2 storage places). But 3 bytes taken from the wire crash it.

use std::panic::{catch_unwind, AssertUnwindSafe};

use dvb_gse_rust::crc::DefaultCrc;
use dvb_gse_rust::gse_decap::{DecapStatus, Decapsulator, GseDecapMemory, SimpleGseMemory};
use dvb_gse_rust::header_extension::SimpleMandatoryExtensionHeaderManager;

type Decap = Decapsulator<SimpleGseMemory, DefaultCrc, SimpleMandatoryExtensionHeaderManager>;

fn receiver_without_fragment_slot() -> Decap {
    let mut memory = SimpleGseMemory::new(0, 16, 0, 0);
    memory
        .provision_storage(vec![0u8; 16].into_boxed_slice())
        .expect("the memory accepts storage buffers");
    memory
        .provision_storage(vec![0u8; 16].into_boxed_slice())
        .expect("the memory accepts storage buffers");
    Decapsulator::new(memory, DefaultCrc {}, SimpleMandatoryExtensionHeaderManager {})
}

/// decap must return Ok or Err, with 2 <= consumed <= buffer.len()
fn assert_total(decap: &mut Decap, what: &str, buffer: &[u8]) {
    let res = catch_unwind(AssertUnwindSafe(|| decap.decap(buffer)));
    match res {
        Err(_) => panic!("C05 violated: decap panicked on {what} {buffer:02x?}"),
        Ok(Ok((_, n))) | Ok(Err((_, n))) => {
            assert!(n <= buffer.len(), "{what}: consumed {n} > {}", buffer.len());
            assert!(n >= buffer.len().min(2), "{what}: consumed {n}: no progress");
        }
    }
}

#[test]
fn the_configuration_is_functional_for_complete_packets() {
    // sanity: this part passes, the receiver is a legitimate, working state
    let mut decap = receiver_without_fragment_slot();
    // complete packet, broadcast label, gse_len 5, protocol 0x0800, pdu "abc"
    let pkt = [0xE0, 0x05, 0x08, 0x00, b'a', b'b', b'c'];
    match decap.decap(&pkt) {
        Ok((DecapStatus::CompletedPkt(pdu, meta), 7)) => {
            assert_eq!(&pdu[..meta.pdu_len()], b"abc");
        }
        other => panic!("unexpected {other:?}"),
    }
}

#[test]
fn intermediate_fragment_three_bytes_from_the_wire() {
    let mut decap = receiver_without_fragment_slot();
    // S=0 E=0 LT=3B (0x1...), gse_len 2, frag_id 0, one payload byte
    assert_total(&mut decap, "intermediate fragment", &[0x10, 0x02, 0x00, 0xAA]);
}

#[test]
fn end_fragment() {
    let mut decap = receiver_without_fragment_slot();
    // S=0 E=1, gse_len 5 = frag_id + crc
    assert_total(&mut decap, "end fragment", &[0x60, 0x05, 0x07, 1, 2, 3, 4]);
}

#[test]
fn first_fragment() {
    let mut decap = receiver_without_fragment_slot();
    // S=1 E=0 broadcast, gse_len 8: frag_id 1, total_len 100, protocol 0x0800, 3 pdu bytes
    assert_total(
        &mut decap,
        "first fragment",
        &[0xA0, 0x08, 0x01, 0x00, 0x64, 0x08, 0x00, b'a', b'b', b'c'],
    );
}
