// C03 - an 11-bit corruption burst confined to the total length and protocol type fields
// (both "CRC-protected bytes") of a first fragment is NOT detected: a PDU is delivered, and it is
// not the PDU that was sent.
//
// Why: the CRC-32 is not computed over the bytes of the packet, but over the *interpreted* fields
// (total length, the protocol type found at the END of the extension chain, label, PDU without the
// extension bytes).  Turning the protocol type 0x0800 into 0x0100 (optional extension, H-LEN 1, no data)
// makes decap take the first two PDU bytes as the protocol type, and turning the total length T into
// T-2 makes the length check agree with the shortened PDU.  The CRC input changes from
//      T   | 0x0800 | label | D[0..2] | D[2..]
// to   T-2 | D[0..2] | label | D[2..]
// which is no longer "original xor short burst": the burst detection guarantee of the CRC-32 is lost.
// The label and D[0..2] below were solved (linear algebra over GF(2)) so that both inputs have the same
// CRC-32, the rest of the PDU is arbitrary.

use dvb_gse_rust::crc::{CrcCalculator, DefaultCrc};
use dvb_gse_rust::gse_decap::{
    DecapError, DecapStatus, Decapsulator, GseDecapMemory, SimpleGseMemory,
};
use dvb_gse_rust::gse_encap::{EncapMetadata, EncapStatus, Encapsulator};
use dvb_gse_rust::header_extension::SimpleMandatoryExtensionHeaderManager;
use dvb_gse_rust::label::Label;

type Decap = Decapsulator<SimpleGseMemory, DefaultCrc, SimpleMandatoryExtensionHeaderManager>;

fn decapsulator() -> Decap {
    let mut memory = SimpleGseMemory::new(256, 4096, 0, 0);
    for _ in 0..4 {
        memory
            .provision_storage(vec![0u8; 4096].into_boxed_slice())
            .unwrap();
    }
    Decapsulator::new(memory, DefaultCrc {}, SimpleMandatoryExtensionHeaderManager {})
}

fn describe(r: &Result<(DecapStatus, usize), (DecapError, usize)>) -> String {
    match r {
        Ok((DecapStatus::CompletedPkt(pdu, md), _)) => format!(
            "CompletedPkt(pdu_len {}, protocol_type {:#06x}, label {:?}, extensions {:?}, pdu[..4] {:02x?})",
            md.pdu_len(),
            md.protocol_type(),
            md.label(),
            md.extensions(),
            &pdu[..4]
        ),
        Ok((other, _)) => other.to_str().to_string(),
        Err((e, _)) => format!("{:?}", e),
    }
}

#[test]
fn c03_burst_on_total_length_and_protocol_type_is_not_detected() {
    // 100-byte PDU, 6-byte label, IPv4 protocol type
    let label_bytes = *b"dRng!:";
    let mut pdu: Vec<u8> = (0..100u8).collect();
    pdu[0] = 0x41;
    pdu[1] = 0xb6;
    let md = EncapMetadata::new(0x0800, Label::SixBytesLabel(label_bytes));

    // the collision this test relies on (documents how the constants were chosen)
    let total_len = (pdu.len() + 2 + 6) as u16;
    assert_eq!(
        DefaultCrc {}.calculate_crc32(&pdu, 0x0800, total_len, &label_bytes),
        DefaultCrc {}.calculate_crc32(&pdu[2..], 0x41b6, total_len - 2, &label_bytes)
    );

    // regular fragmented transfer produced by encap
    let mut encap = Encapsulator::new(DefaultCrc {});
    let mut pkts: Vec<Vec<u8>> = Vec::new();
    let mut buf = [0u8; 50];
    let mut ctx = match encap.encap(&pdu, 9, md, &mut buf).unwrap() {
        EncapStatus::FragmentedPkt(len, ctx) => {
            pkts.push(buf[..len as usize].to_vec());
            ctx
        }
        _ => panic!("expected a first fragment"),
    };
    loop {
        let mut buf = [0u8; 50];
        match encap.encap_frag(&pdu, &ctx, &mut buf).unwrap() {
            EncapStatus::FragmentedPkt(len, c) => {
                pkts.push(buf[..len as usize].to_vec());
                ctx = c;
            }
            EncapStatus::CompletedPkt(len) => {
                pkts.push(buf[..len as usize].to_vec());
                break;
            }
        }
    }

    // sanity: without fault the PDU is delivered unchanged
    let mut d = decapsulator();
    let mut last = None;
    for p in &pkts {
        last = Some(d.decap(p).unwrap().0);
    }
    match last.unwrap() {
        DecapStatus::CompletedPkt(out, m) => {
            assert_eq!(&out[..m.pdu_len()], &pdu[..]);
            assert_eq!(m.protocol_type(), 0x0800);
        }
        _ => panic!("the unfaulted train must be delivered"),
    }

    // first fragment layout: [0..2] S/E/LT/gse_len, [2] frag id, [3..5] total length, [5..7] protocol type, [7..13] label
    assert_eq!(&pkts[0][3..5], &total_len.to_be_bytes());
    assert_eq!(&pkts[0][5..7], &0x0800u16.to_be_bytes());

    // SINGLE fault: one burst of 11 bits (byte 4 bit 2 ... byte 5 bit 0), confined to the total length and
    // protocol type fields:   total length 0x006c -> 0x006a,   protocol type 0x0800 -> 0x0100
    let mut faulted = pkts.clone();
    faulted[0][4] ^= 0x06;
    faulted[0][5] ^= 0x09;

    let mut d = decapsulator();
    let mut delivered: Option<String> = None;
    for p in &faulted {
        let r = d.decap(p);
        if matches!(r, Ok((DecapStatus::CompletedPkt(_, _), _))) {
            delivered = Some(describe(&r));
        }
    }
    assert!(
        delivered.is_none(),
        "a burst of 11 bits in the CRC-protected header fields went undetected, decap delivered {} \
         (sent: 100 bytes, protocol type 0x0800, no extension)",
        delivered.unwrap()
    );
}
