// C03 - a first fragment that decap REJECTS before touching the memory does not
// supersede the reassembly context already stored for its fragment id.
//
// The property says: a completed PDU is reported at an end fragment only if the
// payloads of the MOST RECENT first fragment of that fragment id and of all the
// later fragments with that id have the announced total length and CRC.
// Here the most recent first fragment of the id is one that decap refused
// (ErrorTotalLength / ErrorNoLabelSaved / ErrorUnkownMandatoryHeader /
// ErrorInvalidLabel ...): those error exits of `decap_first` are taken before
// `memory.new_frag`, so the older context of the same fragment id survives and the
// following fragments are appended to it and delivered.

use dvb_gse_rust::crc::{CrcCalculator, DefaultCrc};
use dvb_gse_rust::gse_decap::{
    DecapError, DecapStatus, Decapsulator, GseDecapMemory, SimpleGseMemory,
};
use dvb_gse_rust::gse_encap::{EncapMetadata, EncapStatus, Encapsulator};
use dvb_gse_rust::header_extension::SimpleMandatoryExtensionHeaderManager;
use dvb_gse_rust::label::Label;

type Decap = Decapsulator<SimpleGseMemory, DefaultCrc, SimpleMandatoryExtensionHeaderManager>;

fn decapsulator() -> Decap {
    let mut memory = SimpleGseMemory::new(256, 4096, 0, 0);
    for _ in 0..4 {
        memory
            .provision_storage(vec![0u8; 4096].into_boxed_slice())
            .unwrap();
    }
    Decapsulator::new(memory, DefaultCrc {}, SimpleMandatoryExtensionHeaderManager {})
}

const LT_6B: u16 = 0x0000;
const LT_BROADCAST: u16 = 0x2000;
const LT_REUSE: u16 = 0x3000;

/// Hand-made first fragment: S=1 E=0 | LT | gse_len, frag id, total length, protocol type, label, payload
fn first_frag(lt: u16, frag_id: u8, total_len: u16, ptype: u16, label: &[u8], payload: &[u8]) -> Vec<u8> {
    let gse_len = (1 + 2 + 2 + label.len() + payload.len()) as u16;
    let mut p = Vec::new();
    p.extend_from_slice(&(0x8000u16 | lt | gse_len).to_be_bytes());
    p.push(frag_id);
    p.extend_from_slice(&total_len.to_be_bytes());
    p.extend_from_slice(&ptype.to_be_bytes());
    p.extend_from_slice(label);
    p.extend_from_slice(payload);
    p
}

/// Hand-made end fragment: S=0 E=1 | LT=11 | gse_len, frag id, payload, crc
fn end_frag(frag_id: u8, payload: &[u8], crc: u32) -> Vec<u8> {
    let gse_len = (1 + payload.len() + 4) as u16;
    let mut p = Vec::new();
    p.extend_from_slice(&(0x4000u16 | LT_REUSE | gse_len).to_be_bytes());
    p.push(frag_id);
    p.extend_from_slice(payload);
    p.extend_from_slice(&crc.to_be_bytes());
    p
}

fn is_completed(r: &Result<(DecapStatus, usize), (DecapError, usize)>) -> bool {
    matches!(r, Ok((DecapStatus::CompletedPkt(_, _), _)))
}

/// Short description of a decap result (the storage buffers are 4096 bytes long: do not print them whole)
fn describe(r: &Result<(DecapStatus, usize), (DecapError, usize)>) -> String {
    match r {
        Ok((DecapStatus::CompletedPkt(pdu, md), _)) => {
            format!("CompletedPkt({:02x?}, {:?})", &pdu[..md.pdu_len()], md)
        }
        Ok((other, _)) => other.to_str().to_string(),
        Err((e, _)) => format!("{:?}", e),
    }
}

/// Fault model of the property, double fault on ONE transfer produced by encap:
/// the first fragment is duplicated and the total length field of the duplicate is replaced.
///   F, F' (total length := 0), I, E
/// The most recent first fragment of the id announces a total length of 0: the concatenation can not
/// have that length, nothing may be delivered.
#[test]
fn c03_duplicate_first_fragment_with_replaced_total_length() {
    let pdu: Vec<u8> = (0..100u8).collect();
    let label = Label::SixBytesLabel(*b"012345");
    let md = EncapMetadata::new(0x0800, label);
    let mut encap = Encapsulator::new(DefaultCrc {});

    let mut pkts: Vec<Vec<u8>> = Vec::new();
    let mut buf = [0u8; 40];
    let mut ctx = match encap.encap(&pdu, 7, md, &mut buf).unwrap() {
        EncapStatus::FragmentedPkt(len, ctx) => {
            pkts.push(buf[..len as usize].to_vec());
            ctx
        }
        _ => panic!("expected a first fragment"),
    };
    loop {
        let mut buf = [0u8; 40];
        match encap.encap_frag(&pdu, &ctx, &mut buf).unwrap() {
            EncapStatus::FragmentedPkt(len, c) => {
                pkts.push(buf[..len as usize].to_vec());
                ctx = c;
            }
            EncapStatus::CompletedPkt(len) => {
                pkts.push(buf[..len as usize].to_vec());
                break;
            }
        }
    }
    assert!(pkts.len() >= 3);

    // sanity: the unfaulted train is delivered
    let mut d = decapsulator();
    let mut last = None;
    for p in &pkts {
        last = Some(d.decap(p));
    }
    assert!(is_completed(last.as_ref().unwrap()));

    // fault 1: duplicate the first fragment; fault 2: replace the total length of the duplicate by 0
    let mut dup = pkts[0].clone();
    dup[3] = 0;
    dup[4] = 0;

    let mut d = decapsulator();
    assert!(matches!(d.decap(&pkts[0]), Ok((DecapStatus::FragmentedPkt(_), _))));
    // the duplicate is (rightly) refused ...
    assert!(matches!(d.decap(&dup), Err((DecapError::ErrorTotalLength, _))));
    // ... but it IS the most recent first fragment of fragment id 7
    let mut delivered = false;
    for p in &pkts[1..] {
        delivered |= is_completed(&d.decap(p));
    }
    assert!(
        !delivered,
        "a PDU was delivered although the most recent first fragment of its fragment id announces total length 0"
    );
}

/// Splice of two trains on one fragment id, only syntactically valid packets:
///   F_A (6-byte label), [new BBFrame: reset_last_label], F_B (re-use label -> ErrorNoLabelSaved), E
/// E carries the CRC of A.  The train that E belongs to, according to the property, is B's:
/// payload(F_B) ++ payload(E) with B's total length / protocol type, whose CRC does not match.
#[test]
fn c03_refused_reuse_first_fragment_does_not_supersede() {
    let a1 = [0xA1u8; 10];
    let b1 = [0xB2u8; 10];
    let e = [0xEEu8; 6];
    let label = *b"LABEL6";

    let mut pdu_a = a1.to_vec();
    pdu_a.extend_from_slice(&e);
    let total_a = (pdu_a.len() + 2 + 6) as u16;
    let crc_a = DefaultCrc {}.calculate_crc32(&pdu_a, 0x0800, total_a, &label);

    let mut pdu_b = b1.to_vec();
    pdu_b.extend_from_slice(&e);
    let total_b = (pdu_b.len() + 2) as u16; // re-use label: no label bytes
    let crc_b = DefaultCrc {}.calculate_crc32(&pdu_b, 0x86DD, total_b, &[]);
    assert_ne!(crc_a, crc_b);

    let f_a = first_frag(LT_6B, 3, total_a, 0x0800, &label, &a1);
    let f_b = first_frag(LT_REUSE, 3, total_b, 0x86DD, &[], &b1);
    let end = end_frag(3, &e, crc_a);

    let mut d = decapsulator();
    assert!(matches!(d.decap(&f_a), Ok((DecapStatus::FragmentedPkt(_), _))));
    d.reset_last_label();
    assert!(matches!(d.decap(&f_b), Err((DecapError::ErrorNoLabelSaved, _))));
    let r = d.decap(&end);
    // oracle on the received bytes: most recent first fragment of id 3 is F_B;
    // crc(total_b, 0x86DD, [], b1 ++ e) != trailer  =>  no delivery allowed
    assert!(
        !is_completed(&r),
        "delivered {}: these bytes are not payload(most recent first fragment) ++ payload(end)",
        describe(&r)
    );
}

/// Same splice, the second first fragment carries a mandatory extension unknown to the receiver.
#[test]
fn c03_refused_unknown_mandatory_extension_first_fragment_does_not_supersede() {
    let a1 = [0x11u8; 12];
    let e = [0x22u8; 5];
    let mut pdu_a = a1.to_vec();
    pdu_a.extend_from_slice(&e);
    let total_a = (pdu_a.len() + 2) as u16;
    let crc_a = DefaultCrc {}.calculate_crc32(&pdu_a, 0x0800, total_a, &[]);

    let f_a = first_frag(LT_BROADCAST, 200, total_a, 0x0800, &[], &a1);
    // protocol type field 0x0042: mandatory extension (H-LEN = 0), unknown to SimpleMandatoryExtensionHeaderManager
    let f_b = first_frag(LT_BROADCAST, 200, 40, 0x0042, &[], &[0x33u8; 12]);
    let end = end_frag(200, &e, crc_a);

    let mut d = decapsulator();
    assert!(matches!(d.decap(&f_a), Ok((DecapStatus::FragmentedPkt(_), _))));
    assert!(matches!(d.decap(&f_b), Err((DecapError::ErrorUnkownMandatoryHeader, _))));
    let r = d.decap(&end);
    assert!(
        !is_completed(&r),
        "delivered {} although the most recent first fragment of fragment id 200 was dropped",
        describe(&r)
    );
}
